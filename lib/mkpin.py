#!/usr/bin/env python3
"""Hand-written regression pins (scenario replays). Usage: mkpin.py -> writes regress/<pid>/<name>.json"""
import base64, json, os

def g(*args, note=None):
    d = {"op": "goit", "args": list(args)}
    if note: d["note"] = note
    return d
def w(path, data=""):
    return {"op": "write", "path": path, "data": base64.b64encode(data.encode()).decode()}
def rm(path): return {"op": "remove", "path": path}
def rmdir(path): return {"op": "rmdir", "path": path}
INIT = [g("init"), g("config", "user.name", "Test User"), g("config", "user.email", "test@example.com")]

def scen(pid, profile, name, steps, why):
    os.makedirs("/verif/regress/" + pid, exist_ok=True)
    doc = {"property": pid, "kind": "scenario", "case": {"profile": profile, "steps": steps}, "error": why}
    json.dump(doc, open("/verif/regress/%s/%s.json" % (pid, name), "w"), indent=1)

def api(pid, kind, name, case, why):
    os.makedirs("/verif/regress/" + pid, exist_ok=True)
    json.dump({"property": pid, "kind": kind, "case": case, "error": why}, open("/verif/regress/%s/%s.json" % (pid, name), "w"), indent=1)

scen("C07", "diff", "between-sibling-phantom-new-file", INIT + [w("test-data", "1"), w("test.c", "2"), w("test/x", "3"),
     g("add", "test-data", "test.c", "test"), g("commit", "-m", "one"), g("commit", "-m", "again")],
     "siblings sorting between 'test' and 'test/': status showed phantom 'new file: test/x', second commit accepted")
scen("C08", "reset", "hard-recreates-missing-directory", INIT + [w("d/e/f", "1"), w("top", "2"), g("add", "d", "top"), g("commit", "-m", "one"),
     w("top", "3"), g("add", "top"), g("commit", "-m", "two"), rmdir("d"), g("reset", "--hard", "HEAD@{1}")],
     "reset --hard failed with 'no such file or directory' when a directory of the snapshot was missing")
scen("C08", "reset", "argument-must-match-exactly", INIT + [w("a", "1"), g("add", "a"), g("commit", "-m", "one"),
     g("reset", "--soft", "xHEAD@{0}", note="invalid"), g("reset", "--soft", "HEAD@{0}x", note="invalid")],
     "unanchored argument pattern accepted xHEAD@{0}")
steps = INIT + []
for i in range(11):
    steps += [w("a", str(i)), g("add", "a"), g("commit", "-m", "c%d" % i)]
steps += [g("reset", "--mixed", "HEAD@{10}")]
scen("C08", "reset", "two-digit-position", steps, "positions >= 10 that reflog displays could not be named")
scen("C18", "robust", "fresh-repository-branch-and-switch", [g("init"), g("status"), g("branch", "x"), g("switch", "-c", "y"), g("branch", "-r", "z"),
     w("a", "1"), g("add", "a"), g("status"), g("branch", "x"), g("switch", "-c", "y"), g("log"), g("reflog"), g("reset", "HEAD@{0}")],
     "nil HEAD commit: status / branch <n> / switch -c panicked before the first commit")
scen("C13", "worktree", "directory-named-x.goit-is-not-hidden", INIT + [w("first.txt", "1"), g("add", "first.txt"), g("commit", "-m", "first"),
     w("x.goit/f", "1"), w("sub/y.goit/g", "2"), g("status")],
     "unanchored built-in pattern '.goit/' hid directories whose name ends in .goit")
scen("C17", "ignore", "add-dot-skips-goit-dir", INIT + [w("a", "1"), w("x.goit/f", "2"), g("add", "."), g("commit", "-m", "c"), g("add", "."), g("status")],
     "add . staged .goit/HEAD and .goit/config; x.goit/ was hidden")
scen("C11", "journal", "hostile-messages-and-rename", INIT + [w("a", "1"), g("add", "a"), g("commit", "-m", "fix: colon"),
     w("a", "2"), g("add", "a"), g("commit", "-m", "tab\there"), w("a", "3"), g("add", "a"), g("commit", "-m", "subject\n\nbody line of three words\nmore: text"),
     g("branch", "-r", "renamed"), g("reset", "--soft", "HEAD@{1}"), g("reflog"), g("switch", "-c", "other"), g("branch", "-d", "renamed"), g("reset", "--soft", "HEAD@{2}")],
     "messages with ': ', tab, several lines dropped or corrupted entries; rename wrote a zero-id record that crashed reflog/reset")
scen("C03", "hostile", "update-ref-blob-and-hostile-branch-names", INIT + [w("a", "1"), g("add", "a"), g("commit", "-m", "c"),
     g("update-ref", "refs/heads/main", "56a6051ca2b02b04ef92d5150c9ef600403cb1de", note="hostile"),
     g("branch", "../../HEAD", note="hostile"), g("switch", "-c", "../x", note="hostile"), g("branch", "-r", "a/b", note="hostile"), g("branch", "a/b", note="hostile")],
     "update-ref accepted a blob id; branch ../../HEAD overwrote HEAD")
api("C19", "api-c19", "config-line-without-equals", {"loader": "config", "data": base64.b64encode(b"[user]\n\tname\n").decode()}, "Config.load indexed past the split result")
api("C19", "api-c19", "config-key-before-section", {"loader": "config", "data": base64.b64encode(b"\tname = x\n").decode()}, "assignment to nil map")
api("C19", "api-c19", "global-config-line-without-equals", {"loader": "globalconfig", "data": base64.b64encode(b"[a]\nb\n").decode()}, "Config.load indexed past the split result")
scen("C17", "ignore", "backslash-name-is-not-a-goit-path", INIT + [w("a", "1"), w(".goit\\HEAD", "evil"), w("d\\e", "2"), g("add", "."), g("status"), g("commit", "-m", "c"),
     w(".goit\\HEAD", "evil2"), g("restore", ".goit\\HEAD"), g("status")],
     "a file named '.goit\\HEAD' was staged as .goit/HEAD; restore then overwrote Goit's HEAD file")
scen("C04", "stage", "backslash-name-staged-verbatim", INIT + [w("a\\b", "1"), w("d/x\\", "2"), g("add", "a\\b", "d"), g("status"), g("rm", "a\\b")],
     "a\\b was staged as a/b")
scen("C14", "log", "crlf-message-shown-as-recorded", INIT + [w("a", "1"), g("add", "a"), g("commit", "-m", "subject\r\n\r\nbody line\r\n"), g("log"), w("a", "2"), g("add", "a"), g("commit", "-m", "trailing cr\r"), g("log")],
     "log dropped the CR before a line break from the message")
scen("C14", "log", "message-line-over-64k", INIT + [w("a", "1"), g("add", "a"), g("commit", "-m", "y" * 70000), g("log"), w("a", "2"), g("add", "a"), g("commit", "-m", "s\n" + "x" * 66000 + "\ntail"), g("log")],
     "log showed an empty message for a commit whose message line is longer than 64 KiB")
scen("C11", "journal", "message-line-over-64k", INIT + [w("a", "1"), g("add", "a"), g("commit", "-m", "one"), w("a", "2"), g("add", "a"), g("commit", "-m", "y" * 70000), g("reflog"), g("reset", "--soft", "HEAD@{1}"), g("reflog")],
     "reflog and reset HEAD@{n} failed with 'token too long' after a commit with a first message line over 64 KiB")
scen("C20", "config", "value-over-64k", [g("init"), g("config", "user.name", "L" + "n" * 70000 + " end"), g("config", "user.email", "a@example.com"), g("config", "core.x", "1")],
     "a value over 64 KiB silently ended the reading of the configuration; the next config call dropped it")
scen("C17", "ignore", "entry-with-invalid-utf8-name", INIT + [{"op": "write", "path": ".goitignore", "data": base64.b64encode(b"r\xe9sum\xe9/\n").decode()},
     {"op": "write", "path": "\x00b64:" + base64.b64encode(b"r\xe9sum\xe9/f").decode(), "data": base64.b64encode(b"x").decode()}, w("g", "y"), g("status"), g("add", "."), g("status")],
     "an ignore entry that is not valid UTF-8 made status and add panic in regexp.MustCompile")
scen("C13", "worktree", "blank-line-in-ignore-file", INIT + [w("first.txt", "1"), g("add", "first.txt"), g("commit", "-m", "first"), w(".goitignore", "build/\n\n*.log\n"),
     w("g", "y"), w("build/o", "z"), w("x.log", "l"), g("status")],
     "a blank line in .goitignore hid every untracked file")
scen("C17", "ignore", "blank-line-in-ignore-file", INIT + [w(".goitignore", "build/\n\n*.log\n"), w("g", "y"), w("build/o", "z"), w("d/x.log", "l"), w("d/k", "k"), g("add", "."), g("add", "d"), g("status")],
     "a blank line in .goitignore made add skip every path")
scen("C08", "reset", "hard-across-file-directory-swap", INIT + [w("d/f", "1"), w("k", "k"), g("add", "d", "k"), g("commit", "-m", "one"), g("rm", "d/f"), rmdir("d"), w("d", "now a file"), g("add", "d"), g("commit", "-m", "two"),
     g("reset", "--hard", "HEAD@{1}"), g("status"), g("reset", "--hard", "HEAD@{1}"), g("status")],
     "reset --hard failed with 'not a directory' when a path is a file in one commit and a directory in the other")
scen("C13", "worktree", "directory-replaced-by-file-and-back", INIT + [w("first.txt", "1"), w("docs/guide.txt", "g"), w("docs/api/ref.txt", "r"), w("notes", "n"), g("add", "first.txt", "docs", "notes"), g("commit", "-m", "first"),
     rmdir("docs"), w("docs", "x"), g("status"), rm("notes"), w("notes/inner", "y"), g("status")],
     "tracked files whose directory became a file, and a tracked file that became a directory, were reported neither as deleted nor as modified")
scen("C13", "worktree", "tracked-file-ignored-later-is-still-reported", INIT + [w("first.txt", "1"), w("x.log", "l"), w("gen/o", "o"), g("add", "first.txt", "x.log", "gen"), g("commit", "-m", "first"),
     w(".goitignore", "*.log\ngen/\n"), w("x.log", "changed"), w("gen/o", "changed"), g("status")],
     "a tracked file matching an ignore entry written later was not reported as modified")
scen("C07", "diff", "file-staged-where-head-has-directory", INIT + [w("a/b", "1"), w("k", "k"), g("add", "a", "k"), g("commit", "-m", "one"), g("rm", "a/b"), rmdir("a"), w("a", "file"), g("add", "a"), g("status"), g("commit", "-m", "two"), g("status")],
     "a staged file was not listed as 'new file' when HEAD holds a directory of that name")
scen("C04", "stage", "lexical-only-spelling-does-not-unstage", INIT + [w("f", "1"), w("g", "2"), w("d/x", "3"), g("add", "f", "g", "d"), g("add", "f/"), g("add", "nosuchdir/../f", "g/../f"), g("add", "d/x/."), g("status")],
     "add f/ (and nosuch/../f, g/../f) removed the existing, unchanged tracked file f from the staging area")
scen("C04", "stage", "rm-beneath-a-file", INIT + [w("a/b", "1"), w("x", "2"), w("y", "3"), g("add", "a", "x", "y"), rmdir("a"), w("a", "file now"), g("rm", "x", "a/b", "y"), g("status")],
     "rm of a tracked path whose directory became a regular file failed with ENOTDIR after removing the arguments before it")
scen("C08", "reset", "hard-over-directory-of-empty-directories", INIT + [w("p", "file"), w("k", "k"), g("add", "p", "k"), g("commit", "-m", "one"), g("rm", "p"), w("p/q/r", "deep"), g("add", "p"), g("commit", "-m", "two"),
     g("rm", "p"), g("commit", "-m", "three"), g("reset", "--hard", "HEAD@{2}"), g("status")],
     "reset --hard could not write a file whose name was taken by a directory that holds only empty directories (left behind by rm)")
print("pins written")

# ---- C15 / C16 pins: points are selected by operation class of the fault-free run (at_op)
def fault(pid, name, setup, command, at_op, why):
    os.makedirs("/verif/regress/" + pid, exist_ok=True)
    json.dump({"property": pid, "kind": pid.lower(), "case": {"state": name, "setup": setup, "command": command, "at_op": at_op}, "error": why},
              open("/verif/regress/%s/%s.json" % (pid, name), "w"), indent=1)

ONE = INIT + [w("a.txt", "one\n"), w("d/b.txt", "two\n"), g("add", "a.txt", "d"), g("commit", "-m", "first")]
DIRTY = ONE + [w("a.txt", "changed\n"), w("n.txt", "new\n")]
STAGED = DIRTY + [g("add", "a.txt", "n.txt")]
TWO = STAGED + [g("commit", "-m", "second")]
for pid in ("C15", "C16"):
    fault(pid, "add-index-rewrite", DIRTY, ["add", "a.txt", "n.txt"], "index:write", "index rewritten in place: truncated index after a kill / failed write")
    fault(pid, "add-blob-before-index", DIRTY, ["add", "n.txt"], "object:create", "add updated the index before the blob existed")
    fault(pid, "commit-branch-rewrite", STAGED, ["commit", "-m", "second"], "branch:write", "branch file rewritten in place")
    fault(pid, "commit-head-rewrite", STAGED, ["commit", "-m", "second"], "HEAD:write", "HEAD rewritten in place")
    fault(pid, "commit-does-not-rewrite-subtree", STAGED, ["commit", "-m", "second"], "object:write#1", "commit rewrote an unchanged, already referenced tree object in place")
    fault(pid, "reset-index-rewrite", TWO, ["reset", "--mixed", "HEAD@{1}"], "index:write", "index rewritten in place")
    fault(pid, "switch-head-rewrite", TWO + [g("branch", "topic")], ["switch", "topic"], "HEAD:write", "HEAD rewritten in place")
    fault(pid, "init-skeleton", [], ["init"], "config:create", "interrupted init left a .goit without HEAD")
    fault(pid, "init-head", [], ["init"], "HEAD:write", "interrupted init left an empty HEAD")
fault("C16", "commit-branch-read-error-drops-parent", STAGED, ["commit", "-m", "second"], "branch:readfile#3", "any error reading the branch file was taken for 'first commit'")
fault("C15", "first-commit-log-directories", INIT + [w("a.txt", "one\n"), g("add", "a.txt")], ["commit", "-m", "first"], "logs:mkdir#3", "a kill between mkdir(logs/refs) and mkdir(logs/refs/heads) made every later commit fail")
scen("C20", "config", "value-with-line-break-and-key-with-equals", [g("init"), g("config", "user.name", "Ann"), g("config", "user.email", "ann@example.com"), g("config", "user.editor", "two\nlines"),
     g("config", "user.email=old", "v"), g("config", "user. name", "X"), g("config", "core.x", "1"), w("c.txt", "1"), g("add", "c.txt"), g("commit", "-m", "c")],
     "a value with a line break made the config unloadable; a key with '=' replaced another key")
scen("C10", "branch", "rev-parse-branch-named-head", INIT + [w("a", "1"), g("add", "a"), g("commit", "-m", "c1"), g("branch", "head"), g("branch", "Head"), w("a", "2"), g("add", "a"), g("commit", "-m", "c2"),
     g("rev-parse", "head", "Head", "HEAD")],
     "rev-parse lower-cased its argument: for a branch named head it printed the commit of the current branch")
scen("C03", "hostile", "branch-name-with-control-character", INIT + [w("a", "1"), g("add", "a"), g("commit", "-m", "c"), g("switch", "-c", "\nfoo", note="hostile"), g("status"),
     g("branch", "-r", "a\nb", note="hostile"), g("branch", "x\x01", note="hostile"), g("status")],
     "switch -c with a name that starts with a line break wrote a HEAD that no command could load any more")
scen("C14", "log", "odd-ignore-file-does-not-stop-log", INIT + [w("h.txt", "1"), g("add", "h.txt"), g("commit", "-m", "one"), w(".goitignore", "build/\n*." + "x" * 70000 + "\n"), g("log"),
     rm(".goitignore"), w(".goitignore/inner", "x"), g("log"), g("log", "-n", "1")],
     "a .goitignore with a line over 64 KiB, or a directory of that name, made log (and every command) fail")
scen("C17", "ignore", "line-break-in-name-with-ignored-extension", INIT + [w(".goitignore", "*.log\nbuild/\n"), w("a\nb.log", "1"), w("sub/c\nd.log", "2"), w("k", "3"), g("add", "."), g("add", "sub"), g("add", "a\nb.log")],
     "a file name with a line break was not covered by a '*.ext' entry")
print("fault pins written")

scen("C18", "robust", "branch-name-with-colon-space", INIT + [w("a", "1"), g("add", "a"), g("commit", "-m", "c1"), g("switch", "-c", "a: b"),
     g("status"), g("reset", "--soft", "HEAD@{0}"), g("rev-parse", "HEAD"), g("log"), w("a", "2"), g("add", "a"), g("commit", "-m", "c2"), g("branch", "--list")],
     "HEAD content was split at ': ': branch 'a: b' resolved to 'a', nil HEAD commit, reset panicked")
scen("C10", "branch", "branch-name-with-colon-space", INIT + [w("a", "1"), g("add", "a"), g("commit", "-m", "c1"), g("switch", "-c", "a: b"),
     w("a", "2"), g("add", "a"), g("commit", "-m", "c2"), g("switch", "main"), g("branch", "-d", "a: b")],
     "HEAD content was split at ': '")
