"""What each check runs: parts (test binary + test name), case counts and shard counts per tier."""

Q, T = "quick", "thorough"


def part(pkg, test, checks, shards, steps=30, **kw):
    d = {"pkg": pkg, "test": test, "checks": {Q: checks[0], T: checks[1]}, "shards": {Q: shards[0], T: shards[1]},
         "steps": steps}
    d.update(kw)
    return d


def fuzzpart(pkg, target, fuzztime):
    return {"pkg": pkg, "test": target, "fuzz": target, "fuzztime": fuzztime, "tiers": (T,)}


PLAN = {
    "C01": [
        part("api", "TestC01API", (400, 4000), (8, 16)),
        part("cli", "TestC01CLI", (25, 300), (8, 16)),
    ],
    "C02": [part("cli", "TestC02", (70, 900), (16, 16), steps=30)],
    "C03": [part("cli", "TestC03", (70, 900), (16, 16), steps=30)],
    "C04": [part("cli", "TestC04", (90, 1200), (16, 16), steps=25)],
    "C05": [
        part("cli", "TestC05", (150, 1200), (8, 16)),
        part("cli", "TestC05Histories", (50, 500), (8, 16), steps=30),
        part("api", "TestC05API", (1500, 40000), (2, 8)),
    ],
    "C06": [
        part("api", "TestC06Exhaustive", (1, 1), (16, 16)),
        part("api", "TestC06Large", (150, 3000), (2, 8)),
        part("cli", "TestC06CLI", (50, 800), (8, 16), steps=30),
    ],
    "C07": [part("cli", "TestC07", (70, 900), (16, 16), steps=25)],
    "C08": [part("cli", "TestC08", (70, 900), (16, 16), steps=30)],
    "C09": [part("cli", "TestC09", (70, 900), (16, 16), steps=25)],
    "C10": [
        part("cli", "TestC10Exhaustive", (1, 1), (8, 16)),
        part("cli", "TestC10", (40, 600), (8, 16), steps=30),
        part("api", "TestC10API", (1000, 30000), (2, 8)),
    ],
    "C11": [part("cli", "TestC11", (50, 800), (16, 16), steps=30)],
    "C12": [
        part("api", "TestC12API", (1500, 40000), (4, 16)),
        part("cli", "TestC12CLI", (40, 800), (8, 16)),
    ],
    "C13": [part("cli", "TestC13", (70, 900), (16, 16), steps=25)],
    "C14": [part("cli", "TestC14", (45, 400), (16, 16), steps={Q: 25, T: 60})],
    "C15": [
        part("cli", "TestC15Corpus", (1, 1), (16, 16), shim=True),
        part("cli", "TestC15Random", (3, 120), (16, 16), shim=True),
    ],
    "C16": [
        part("cli", "TestC16Corpus", (1, 1), (16, 16), shim=True),
        part("cli", "TestC16Random", (3, 120), (16, 16), shim=True),
    ],
    "C17": [part("cli", "TestC17", (70, 900), (16, 16), steps=30)],
    "C18": [part("cli", "TestC18", (80, 1500), (16, 16), steps={Q: 30, T: 40})],
    "C19": [
        part("api", "TestC19Mutations", (1, 1), (1, 1)),
        part("api", "TestC19Random", (6000, 100000), (4, 16)),
        part("cli", "TestC19CLI", (1, 1), (8, 16)),
        part("cli", "TestC19Rehash", (1, 1), (8, 16)),
    ] + [fuzzpart("api", t, "25s") for t in (
        "FuzzC19ObjectContent", "FuzzC19Object", "FuzzC19Tree", "FuzzC19Commit", "FuzzC19Index", "FuzzC19Head",
        "FuzzC19Branch", "FuzzC19Config", "FuzzC19Reflog", "FuzzC19Hash", "FuzzC19NullStr")],
    "C20": [part("cli", "TestC20", (90, 1200), (16, 16), steps=15)],
}

LEVEL = {"C15": "fault_enumeration", "C16": "fault_enumeration"}

RULES = {
    "C01": "API: rapid state machine put/putAgain/get/getUnknown over kind x byte strings (classes: empty, text, "
           "binary, header look-alike, compressible run, incompressible block, up to MiB sizes) against "
           "object.NewObject/Write/GetObject; CLI: files written, hash-object/add/cat-file, re-add, same bytes under "
           "a second name, commit. Non-trivial = payload non-empty and hostile (contains NUL / invalid UTF-8 / "
           "header look-alike / > 4 KiB / incompressible); distinct by (kind, sha1(data)).",
    "C02": "Scenario machine (profile commit): generated histories; one evaluation = one scenario. Non-trivial = a "
           "successful commit whose snapshot has >= 2 paths incl. a nested one, or a between-sibling family, or a "
           "parent; distinct by hash of (sorted staged paths, has-parent, branch count).",
    "C03": "Scenario machine (profile hostile). Non-trivial = state after a step of a scenario that already has >= 1 "
           "commit and >= 1 hostile or refused command; distinct by hash of the command skeleton so far.",
    "C04": "Scenario machine (profile stage). Non-trivial = add/rm on a non-empty index whose arguments contain a "
           "directory, a deleted-but-tracked path or a repeat; distinct by (index paths, arguments, tree shape).",
    "C05": "Crafted staging areas: path sets (depth 1..4, confusable alphabet) x 20-byte ids (uniform + planted "
           "0x00/0x20/0x0a/0x09/0x2f at offsets 0,9,19); histories with resets to recorded commits. Non-trivial = "
           ">= 3 entries with a nested directory, or a between-sibling family, or a space in a name, or a hostile id, "
           "or the empty snapshot; distinct by hash of the (path,id) set.",
    "C06": "Exhaustive: all path sets up to size 4 (quick) / 5 (thorough) over a 22-path universe {a, a-, a., a0, 'a b', a(, a+, "
           "a[, ab, ad, d, d-old, a/x, a/a, a-/x, a./x, ad/x, d/x, d/a(, 'a b/x', a(/x, d/d-old}, each in all (<= 3 elements) or 4 "
           "insertion orders, followed by update, delete and reload, x ~40 query names; CLI: scenario machine (profile index). "
           "Non-trivial = set containing two names where one is a prefix/substring of the other or a sibling sorting "
           "between d and d/; distinct by (insertion order) resp. tracked path set.",
    "C07": "Scenario machine (profile diff). Non-trivial = staged difference with >= 2 kinds, or a between-sibling "
           "family present, or the refused-empty-commit path taken; distinct by (HEAD snapshot, staging area).",
    "C08": "Scenario machine (profile reset). Non-trivial = successful reset to n >= 1, or a refused one; distinct by "
           "(reflog length, mode, n, perturbed?, tracked paths) resp. the refused argument list.",
    "C09": "Scenario machine (profile restore). Non-trivial = argument is a directory or a deleted path and at least "
           "one file/entry actually changes; distinct by (index, working tree, arguments).",
    "C10": "Exhaustive: every sequence over the alphabet {branch/-d/-r/switch/switch -c x 3 names, update-ref x 3 names "
           "x 2 commits, commit, reset, switch main, branch -d main} up to the depth bound from 3 start states (node "
           "count reported); random: rapid sequences; API layer: one long-lived Refs object, with bulk creation of 255-513 branches "
           "followed by a fresh reader. Non-trivial = sequence with >= 2 mutating operation kinds and "
           ">= 1 refusal; distinct by sequence hash.",
    "C11": "Scenario machine (profile journal). Non-trivial = journal with >= 3 entries of >= 2 kinds, or a hostile "
           "message, or a rename; distinct by (kind sequence, message class, rename).",
    "C12": "API: Sign.String -> commit bytes -> NewCommit over names x e-mails x instants x all 105 offsets x messages, two thirds of them read back in a process whose own zone has a transition (labels reader-zone:*); "
           "CLI: commit under a TZif file per offset, cat-file -p, log. Non-trivial = offset != 0 or multi-line / "
           "non-ASCII message; distinct by (offset, name, message).",
    "C13": "Scenario machine (profile worktree). Non-trivial = at least two of {modified, deleted, untracked} "
           "non-empty, or an identical-rewrite / touch step; distinct by (index, tree shape, ignore list).",
    "C14": "Scenario machine (profile log). Non-trivial = chain length >= 3 with explicit -n, or a history containing "
           "a reset; distinct by (length, k, has-reset, branch count).",
    "C15": "Corpus of 11 hand-picked states x the modifying commands that apply (49 pairs): fault-free run under the "
           "instrumented binary counts N modifications, then every k in 1..N is a kill point (SIGKILL before the k-th "
           "create/write/mkdir/rename/remove); thorough adds rapid-generated histories with up to 48 points each. One "
           "evaluation = one kill point. Non-trivial/distinct = (command kind, state class, file class and kind of the "
           "interrupted operation).",
    "C16": "Same corpus: fault-free run counts M faultable operations (create, open, read, readdir, write, mkdir, rename, "
           "remove; never stat), then for every k in 1..M the k-th fails (errno by k mod 4: EIO, ENOSPC+short write, "
           "EACCES, ENOSPC). One evaluation = one injected fault that fired. Non-trivial/distinct = (command kind, file "
           "class and kind of the failed operation).",
    "C17": "Scenario machine (profile ignore). Non-trivial = add of '.' or of a directory containing at least one "
           "ignored/.goit path and at least one ordinary path; distinct by (tree shape, ignore list, arguments).",
    "C18": "Grammar over 19 sub-commands x flags x argument classes; one evaluation = one scenario of ~30 command "
           "lines. Non-trivial = command line run against a state other than 'one commit, clean', or invalid by "
           "construction; distinct by (sub-command, flags, argument classes, state class).",
    "C19": "Mutations: for each valid file (blob, trees, commit with parent, index with 4 entries, HEAD, branch, config, "
           "reflog with 4 records) every truncation and, at every (quick: every 3rd) position, deletion and 6 substitutions; "
           "objects at compressed and content level; all ordered pairs of swapped object files (the zero-length blob among them); staging-area files whose entry k names "
           "a path outside the working tree (/dev/zero, ../../dev/zero, ...), commands run under an address-space limit. Random: arbitrary bytes, "
           "hostile constants, splices of valid files, line garbage, compressed garbage; a reflog of arbitrary lines (one up to "
           "3 MiB) followed by genuine records, whose positions must not move. Rehash: the content of every commit and tree "
           "of a small history damaged (line deleted / repeated, truncated, bytes replaced), stored under its own new id and "
           "re-referenced bottom-up, then 20 reading and modifying commands. Non-trivial = the loader got "
           "past its first validation step (decoded >= 1 entry/header); distinct by (loader, input bytes).",
    "C20": "Scenario machine (profile config). Non-trivial = >= 2 keys in >= 2 sections written, or a special value, "
           "or a local/global override exercised, or the unset-identity refusal; distinct by write sequence.",
}

ASSUMPTIONS = {
    "C15": ["kills are injected between file-system calls of Goit's own source (instrumented scratch copy); torn single writes and loss of unsynced data are out of reach",
            "third-party packages (cobra, color) are not instrumented: they perform no repository I/O"],
    "C16": ["faults are injected into file-system calls of Goit's own source (instrumented scratch copy); Close and stat are not in the fault domain"],
    "*": [
        "trusted base: Go stdlib compress/zlib and crypto/sha1, the independent decoders in harness/core/gitfmt, "
        "the OS file system, pgregory.net/rapid v1.3.0",
        "absence of violations is established only for the generated cases (and completely for sub-spaces marked exhaustive)",
        "goit is invoked from the repository root with HOME pointing at a per-case directory",
    ],
}
