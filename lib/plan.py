"""What each check runs: parts (test binary + test name), case counts and shard counts per tier."""

Q, T = "quick", "thorough"


def part(pkg, test, checks, shards, steps=30, **kw):
    d = {"pkg": pkg, "test": test, "checks": {Q: checks[0], T: checks[1]}, "shards": {Q: shards[0], T: shards[1]},
         "steps": steps}
    d.update(kw)
    return d


PLAN = {
    "C01": [
        part("api", "TestC01API", (400, 4000), (8, 16)),
        part("cli", "TestC01CLI", (25, 300), (8, 16)),
    ],
    "C02": [part("cli", "TestC02", (40, 2000), (16, 16), steps=30)],
    "C04": [part("cli", "TestC04", (60, 2500), (16, 16), steps=25)],
    "C07": [part("cli", "TestC07", (40, 2000), (16, 16), steps=25)],
    "C13": [part("cli", "TestC13", (40, 2000), (16, 16), steps=25)],
}

LEVEL = {"C15": "fault_enumeration", "C16": "fault_enumeration"}

RULES = {
    "C01": "API: rapid state machine put/putAgain/get/getUnknown over kind x byte strings (classes: empty, text, "
           "binary, header look-alike, compressible run, incompressible block, up to MiB sizes) against "
           "object.NewObject/Write/GetObject; CLI: files written, hash-object/add/cat-file, re-add, same bytes under "
           "a second name, commit. Non-trivial = payload non-empty and hostile (contains NUL / invalid UTF-8 / "
           "header look-alike / > 4 KiB / incompressible); distinct by (kind, sha1(data)).",
}

ASSUMPTIONS = {
    "*": [
        "trusted base: Go stdlib compress/zlib and crypto/sha1, the independent decoders in harness/core/gitfmt, "
        "the OS file system, pgregory.net/rapid v1.3.0",
        "absence of violations is established only for the generated cases (and completely for sub-spaces marked exhaustive)",
        "goit is invoked from the repository root with HOME pointing at a per-case directory",
    ],
}
