#!/bin/bash
# usage: lib/runall.sh [tier]   runs every registered check on /repo (or VERIF_REPO) and prints one line each
cd /verif
tier=${1:-quick}
for i in $(seq -w 1 20); do
  p=C$i
  s=$(date +%s)
  out=$(./check $p --tier $tier 2>&1); rc=$?
  e=$(( $(date +%s) - s ))
  echo "$p rc=$rc ${e}s $(echo "$out" | grep -c '^VIOLATION') violations; $(echo "$out" | grep -c '^KNOWN-FINDING') known; $(echo "$out" | grep '^OK\|^INCONCL' | head -1 | cut -c1-150)"
done
