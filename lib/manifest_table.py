HOOKS = {
    "guard": "verif",
    "enable": "go build -tags verif (run from /verif/harness, whose go.mod replaces the repo module with /repo)",
    "baseline_off_cmd": "cd /repo && GOFLAGS=-mod=mod GOPROXY=off GOSUMDB=off go test -vet=off -count=1 ./...",
    "source_commits": [],
    "add_only": True,
}

NOTES = ("No hook is committed to /repo: user-level properties are decided through the goit binary built from the "
         "working tree, internal-API layers import /repo's packages from a nested module, and C15/C16 instrument a "
         "scratch copy by mechanical source rewriting (tools/osrewrite). KNOWN_FINDINGS.txt lists open and fixed findings.")

TRUST = ("Trusted base: Go stdlib zlib/sha1, harness/core/gitfmt (independent decoders), the OS file system, rapid. "
         "Holds for the generated cases only, completely for sub-spaces marked exhaustive in the evidence.")

CHECKS = {
    "C01": {
        "technique": "property-based testing (rapid): model-based state machine on the object store API + CLI round trip, differential against independent SHA-1/zlib decoder and git hash-object",
        "level_text": "Generated-input exploration: thousands of (kind, byte string) cases incl. empty, binary, header look-alike, multi-MiB; id, round trip, idempotent re-store and store-wide invariant checked against an independent decoder after every operation.",
        "level_note": TRUST,
    },
}

_pending = "check not built yet in this session (planned; see DESIGN.md section 4)"
NOT_APPLICABLE = {("C%02d" % i): _pending for i in range(2, 21)}
