HOOKS = {
    "guard": "verif",
    "enable": "go build -tags verif (run from /verif/harness, whose go.mod replaces the repo module with /repo)",
    "baseline_off_cmd": "cd /repo && GOFLAGS=-mod=mod GOPROXY=off GOSUMDB=off go test -vet=off -count=1 ./...",
    "source_commits": [],
    "add_only": True,
}

NOTES = ("No hook is committed to /repo: user-level properties are decided through the goit binary built from the "
         "working tree, internal-API layers import /repo's packages from a nested module, and C15/C16 instrument a "
         "scratch copy by mechanical source rewriting (tools/osrewrite). KNOWN_FINDINGS.txt lists open and fixed findings.")

TRUST = ("Trusted base: Go stdlib zlib/sha1, harness/core/gitfmt (independent decoders), the OS file system, rapid. "
         "Holds for the generated cases only, completely for sub-spaces marked exhaustive in the evidence.")

SM = "stateful property-based testing (rapid t.Repeat scenario machine over the real goit binary); "

def C(technique, text):
    return {"technique": technique, "level_text": text, "level_note": TRUST}

CHECKS = {
    "C01": C("property-based testing (rapid): model-based state machine on the object store API + CLI round trip, differential against an independent SHA-1/zlib decoder and git hash-object",
             "Generated-input exploration: thousands of (kind, byte string) cases incl. empty, binary, header look-alike, multi-MiB; id, round trip, idempotent re-store and store-wide invariant checked against an independent decoder after every operation."),
    "C02": C(SM + "oracle: independent decode of the new commit vs. the pre-command staging area (multiset), parent/branch/HEAD/identity/message postconditions",
             "Exploration of generated histories (file edits, add/rm/restore/reset/branch/switch, confusable name families, hostile messages, several identities); every successful commit is checked against an independent decoder of commit, trees and index."),
    "C03": C(SM + "oracle: independent fsck invariant after every step, incl. hostile update-ref ids, hostile branch names, refused commands",
             "Exploration of generated command sequences with hostile arguments; a whole-store invariant (HEAD, branches, commits, trees, blobs, index, object names = SHA-1 of content, objects only grow) is evaluated after every step whatever the exit status."),
    "C04": C(SM + "oracle: reference model of the staging area computed from the pre-state (named files, files beneath named directories, deleted-but-tracked paths), whole-state comparison",
             "Exploration over prior index states x working trees x argument lists; the new index, the stored blobs, the working tree and the rest of .goit are compared byte-wise with the model's prediction."),
    "C05": C("property-based testing (rapid): crafted staging areas (path sets x arbitrary 20-byte ids, independent encoder) -> write-tree/commit -> reset --mixed / ls-files / cat-file -p round trip; plus stateful histories with recorded staged sets",
             "Round-trip exploration: what the writer wrote is read back through Goit's reader and compared with the input and with an independent tree decoder, for names with spaces, between-sibling families, ids with 0x00/0x20/0x0a bytes and the empty snapshot."),
    "C06": C("exhaustive small-scope enumeration of path sets (all sets up to size 4/5 over a 22-path universe around the byte order of '/', several insertion orders, x all query names) against store.Index + stateful property-based testing (rapid) through the CLI; oracle: independent index decoder and prefix semantics",
             "Every path set up to the size bound is built through the real NewIndex/Update/DeleteEntry and reloaded; the file must decode to exactly the set, strictly ascending; GetEntry / IsRegisteredAsDirectory / GetEntriesByDirectory are compared with set membership and prefix selection for ~40 query names. CLI histories check the same after every index-modifying command."),
    "C07": C(SM + "oracle: set difference HEAD snapshot vs staging area from independent decoders, compared with parsed status output; commit refusal/acceptance",
             "Exploration over (HEAD snapshot, staging area) pairs reached by generated histories with between-sibling name families; status' staged section must equal the model's (kind, path) set and commit must be refused iff that set is empty."),
    "C08": C(SM + "oracle: reflog parsed before the reset names the target; per-mode postconditions on refs, index, working tree from independent decoders",
             "Exploration over histories x positions (valid, out of range, malformed) x modes x perturbed working trees; three stores are compared before/after byte-wise."),
    "C09": C(SM + "oracle: state postcondition per argument form (file, directory, deleted file, deleted directory) from the pre-state index / HEAD snapshot",
             "Exploration over (HEAD, index, working tree) triples and argument forms; named paths must equal their staged blob / HEAD entry, everything else byte-identical."),
    "C10": C("exhaustive bounded exploration of the branch operation alphabet (explicit state tree with directory snapshots) + stateful property-based testing (rapid) beyond the bound; oracle: reference model of (branches, HEAD)",
             "All operation sequences up to depth 2 (quick) / 3 (thorough) from three start states are enumerated; random sequences of ~30 operations beyond; after every step refs, HEAD, branch --list and rev-parse are compared with the model and refused operations must leave .goit byte-identical."),
    "C11": C(SM + "oracle: reflog listing parsed before and after every command (append-only, shift by k, HEAD@{0} = HEAD commit + kind), reset/reflog agreement",
             "Exploration over histories of commit/switch/switch -c/reset/rename/delete with hostile messages and all UTC offsets; the journal is compared entry-wise before/after each command."),
    "C12": C("property-based testing (rapid) with exhaustive coverage of the 105 quarter-hour UTC offsets: write/read round trip of identity, instant, offset, message (API layer and CLI layer with hand-made TZif files)",
             "Every offset in [-12:00,+14:00] is exercised in every run; names, e-mails, instants and messages are random; a CLI case is a short history of commits made under different offsets and read by one log process; stored lines are checked against the Git form by an independent parser and read back through log / cat-file -p / NewCommit."),
    "C13": C(SM + "oracle: three-way set comparison (index, working-tree bytes, ignore list) vs parsed status output; metamorphic relation for identical rewrites and touches",
             "Exploration over staging states x working trees (added/edited/identically rewritten/touched/deleted files, removed directories, depth <= 4) with and without .goitignore."),
    "C14": C(SM + "oracle: parent chain from an independent commit decoder vs parsed log output for drawn -n; metamorphic independence from index/working tree/other branches",
             "Exploration over histories of length 1..16 (quick) / 1..50 (thorough) with resets, branches and shared commits, and k in {absent,0,1,2,len-1,len,len+1,1000}."),
    "C15": C("crash-point enumeration by fault injection: every os.* call site of a scratch copy is rewritten to a numbering shim (tools/osrewrite + shim/vos); for every (state, command) of a corpus every modification k is a kill point; random states (rapid) in the thorough tier; oracle: read-only commands load as before or after, independent fsck, branch value in {before, fault-free result under a frozen clock}",
             "Fault enumeration: all kill points between file-system modifications of every modifying command over 11 hand-picked states (quick) plus generated histories (thorough); one open finding (branch rename window) is matched by (command, file class, operation window, symptom) and excluded, anything else is a violation."),
    "C16": C("single-fault enumeration by fault injection with the same shim: the k-th create/open/read/readdir/write/mkdir/rename/remove fails with EIO/ENOSPC/EACCES (short writes for ENOSPC); oracle: success implies the byte-identical fault-free result (frozen clock), otherwise exit 1 without panic, independent fsck, no branch advanced to a commit other than the fault-free one",
             "Fault enumeration: every single-fault position of every command (modifying and read-only parts) over the corpus states (quick) plus generated histories (thorough); stat calls are never faulted."),
    "C17": C(SM + "oracle: invariant over the staging area after every command (no path inside .goit, none excluded by .goitignore), completeness of add, status listing, Goit's own files unchanged by reset/restore",
             "Exploration over working trees with ignorable directories/extensions, argument forms of add ('.', parent directory, the ignored path, .goit paths), with and without .goitignore."),
    "C18": C("grammar-based fuzzing of command lines (rapid) over all sub-commands x flags x argument classes against states reached by random prefixes; oracle: exit status in {0,1}, no panic text, confirmed time limit, byte-identical state for invalid-by-construction lines",
             "Exploration: thousands of generated command lines incl. missing/surplus arguments, malformed ids, regexp metacharacters, hostile branch names, against fresh / unconfigured / emptied / renamed / multi-branch states."),
    "C19": C("systematic mutation (every truncation, single-byte deletion, 6 substitutions per position, content-level and compressed-level, swapped object files) + random/structured byte strings (rapid) + native coverage-guided fuzzing (thorough) of every loader; oracle: no panic, bounded time and allocation, returned object hashes to the requested id",
             "Totality exploration of GetObject, NewTree, NewCommit, NewIndex, NewHead, NewRefs, NewConfig (local and global), NewReflog/GetRecord/Show, ReadHash, ReadNullTerminatedString, plus reading and modifying commands on mutated repositories, and on repositories whose commit / tree content was damaged, re-stored under its own id and re-referenced (TestC19Rehash)."),
    "C20": C(SM + "oracle: independent parser of the documented config layout vs model after every write; effective identity in the next commit; refusal without side effects while unset",
             "Exploration over sequences of local/global writes (sections and keys incl. brackets, #, ;; values with = [ ] # quotes non-ASCII, 64 KiB+; awkward identities) interleaved with commits, all 16 combinations of (local set?, global set?) x (name, e-mail)."),
}

_pending = "check not built yet in this session (planned; see DESIGN.md section 4)"
NOT_APPLICABLE = {}
