#!/usr/bin/env python3
"""Regenerates the generated parts of DESIGN.md: the table of Appendix C (from git log + KNOWN_FINDINGS.txt) and Appendix D (lib/seeded_table.py)."""
import re, subprocess
p = '/verif/DESIGN.md'
s = open(p).read()
start = s.index('| commit | property | what failed |')
end = s.index('Constraints the frozen suite put on the repairs')
log = subprocess.run(['git', '-C', '/repo', 'log', '--reverse', '--format=%h|%s', 'b6e5918..HEAD'], capture_output=True, text=True).stdout.strip().split('\n')
known = open('/verif/KNOWN_FINDINGS.txt').read()
tbl = '| commit | property | what failed |\n|---|---|---|\n'
for ln in log:
    h, subj = ln.split('|', 1)
    m = re.search(r'fixed: property=(C\d+) ' + h + r' ([^\n]*)', known)
    prop = m.group(1) if m else '?'
    what = m.group(2) if m else subj
    what = re.sub(r'\s*\((regress|guarded)[^)]*(\([^)]*\))?[^)]*\)', '', what)
    tbl += '| `%s` | %s | %s |\n' % (h, prop, what.replace('|', '\\|'))
s = s[:start] + tbl + '\n' + s[end:]
d = subprocess.run(['python3', '/verif/lib/seeded_table.py'], capture_output=True, text=True).stdout
marker = '## Appendix D — Seeded changes'
if marker in s:
    s = s[:s.index(marker)]
s = s.rstrip('\n') + '\n\n' + marker + '\n\n' + d
open(p, 'w').write(s)
print("DESIGN.md regenerated: %d fix commits" % len(log))
