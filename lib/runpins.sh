#!/bin/bash
# runs every regression pin through the driver's replay path; prints failures
# usage: VERIF_REPO=... lib/runpins.sh   (default /repo)
cd /verif
for d in regress/*/; do
  pid=$(basename $d)
  for f in $d*.json; do
    out=$(./check $pid --replay $f 2>&1); rc=$?
    echo "$rc $f"
  done
done
