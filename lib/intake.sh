#!/bin/bash
# usage: lib/intake.sh <PID> <mN> [extra check ids...]
# Confirms a sub-agent's mutant (clean tree: demo passes; patched: builds, unit tests pass, demo fails),
# runs the property's check against it and stores everything under /verif/seeded/<PID>-<mN>/.
pid=$1; m=$2; shift 2
src=/tmp/mut/$pid/out/$m
# re-intake of an already stored change: take it from /verif/seeded
[ -f $src/patch.diff ] || src=/verif/seeded/$pid-$m
[ -f $src/patch.diff ] || { echo "no patch in $src"; exit 2; }
export GOFLAGS=-mod=mod GOPROXY=off GOSUMDB=off GOTOOLCHAIN=local
wt=$(mktemp -d /tmp/mw.XXXXXX); rmdir $wt
git -C /repo worktree add -q --detach $wt HEAD || exit 2
trap 'git -C /repo worktree remove --force $wt >/dev/null 2>&1; rm -rf $wt' EXIT
demo_clean=NA; demo_mut=NA
if [ -f $src/demo.sh ]; then bash $src/demo.sh $wt >/dev/null 2>&1; demo_clean=$?; (cd $wt && git checkout -q -- . 2>/dev/null); fi
base=HEAD
if [ -f $src/patch.ported.diff ] && git -C $wt apply $src/patch.ported.diff 2>/dev/null; then
  # the same change carried over to the current tree after a fix: commit touched the lines around it
  base="HEAD (patch.ported.diff)"
elif ! git -C $wt apply $src/patch.diff 2>/dev/null && ! git -C $wt apply -3 $src/patch.diff 2>/dev/null; then
  # a later fix: commit rewrote the same lines: the change is kept against the tree it was written for
  (cd $wt && git reset -q --hard 2>/dev/null)
  for b in ${BASES:-61a521a 54b0103}; do
    git -C $wt checkout -q --detach $b 2>/dev/null || continue
    if git -C $wt apply $src/patch.diff 2>/dev/null; then base=$b; break; fi
  done
  [ "$base" = HEAD ] && { echo "PATCH-DOES-NOT-APPLY (even with 3-way merge, nor to ${BASES:-61a521a 54b0103})"; exit 2; }
  echo "$pid-$m: applied to older base $base"
fi
(cd $wt && git reset -q 2>/dev/null)
(cd $wt && go build ./... ) || { echo "DOES-NOT-BUILD"; exit 2; }
ut=$(cd $wt && go test -vet=off -count=1 ./... 2>&1 | grep -c "^FAIL\|^--- FAIL")
(cd $wt && git checkout -q go.mod go.sum 2>/dev/null)
if [ -f $src/demo.sh ]; then bash $src/demo.sh $wt >/dev/null 2>&1; demo_mut=$?; fi
(cd $wt && git checkout -q go.mod go.sum 2>/dev/null)
dst=/verif/seeded/$pid-$m
mkdir -p $dst
if [ "$src" != "$dst" ]; then cp $src/patch.diff $dst/; cp $src/patch.ported.diff $dst/ 2>/dev/null; cp $src/notes.md $dst/ 2>/dev/null; cp $src/demo* $dst/ 2>/dev/null; fi
res=""
cd /verif
for p in $pid "$@"; do
  out=$(VERIF_REPO=$wt VERIF_NO_SAVE=1 ./check $p --tier ${TIER:-quick} 2>&1); rc=$?
  first=$(echo "$out" | grep -m1 'violated' | cut -c1-400 | sed 's/"/\\"/g; s/\t/ /g')
  echo "$pid-$m: check $p rc=$rc demo_clean=$demo_clean demo_mutant=$demo_mut unit_failures=$ut :: $first"
  res="$res{\"check\":\"$p\",\"tier\":\"${TIER:-quick}\",\"exit\":$rc,\"first_message\":\"$first\"},"
done
python3 - "$dst" "$pid" "$m" "$demo_clean" "$demo_mut" "$ut" "[${res%,}]" "$base" <<'PY'
import json, sys, os, re
dst, pid, m, dc, dm, ut, res, base = sys.argv[1:9]
try: results = json.loads(res)
except Exception as e: results = [{"raw": res}]
notes = open(os.path.join(dst, "notes.md")).read() if os.path.exists(os.path.join(dst, "notes.md")) else ""
meta = {"property": pid, "mutant": m, "source": "independent sub-agent given only the property text and a scratch worktree",
        "needs_to_manifest": notes[:1500], "confirmed": {"demo_exit_on_clean_tree": dc, "demo_exit_with_patch": dm, "unit_test_failures_with_patch": int(ut),
        "how": "lib/intake.sh: scratch worktree of /repo HEAD, demo.sh on clean tree, git apply patch.diff, go build, go test ./..., demo.sh again"},
        "checks_run": results, "applied_to": base}
json.dump(meta, open(os.path.join(dst, "meta.json"), "w"), indent=1)
PY
