#!/bin/bash
# runs every self-made sensitivity mutant in seeded/self against the checks named in PROPS.txt; writes seeded/self/results.txt
cd /verif
out=seeded/self/results.txt; : > $out
while read name props; do
  [ -f seeded/self/$name.diff ] || continue
  echo "== $name ($props)" >> $out
  lib/trymutant.sh seeded/self/$name.diff $props 2>&1 | cut -c1-260 >> $out
done < seeded/self/PROPS.txt
