#!/bin/bash
# usage: lib/trymutant.sh <patch.diff> <ID> [<ID>...]
# Applies the patch to a scratch worktree of /repo's HEAD, confirms that it builds and that the unit tests pass,
# runs the given checks against it (VERIF_REPO), prints one line per check, removes the worktree.
patch=$(readlink -f "$1"); shift
wt=$(mktemp -d /tmp/mw.XXXXXX); rmdir $wt
export GOFLAGS=-mod=mod GOPROXY=off GOSUMDB=off GOTOOLCHAIN=local
git -C /repo worktree add -q --detach $wt HEAD || exit 2
trap 'git -C /repo worktree remove --force $wt >/dev/null 2>&1; rm -rf $wt' EXIT
if ! git -C $wt apply "$patch" 2>/dev/null && ! git -C $wt apply -3 "$patch"; then echo "PATCH-DOES-NOT-APPLY"; exit 2; fi; (cd $wt && git reset -q)
if ! (cd $wt && go build ./... >/dev/null 2>$wt.build); then echo "DOES-NOT-BUILD"; cat $wt.build | head; rm -f $wt.build; exit 2; fi
rm -f $wt.build
ut=$(cd $wt && go test -vet=off -count=1 ./... 2>&1 | grep -c "^FAIL\|^---")
(cd $wt && git checkout -q go.mod go.sum 2>/dev/null)
echo "unit-test failures: $ut"
cd /verif
for p in "$@"; do
  tier=${TIER:-quick}
  out=$(VERIF_REPO=$wt VERIF_NO_SAVE=1 ./check $p --tier $tier 2>&1); rc=$?
  echo "$p rc=$rc $(echo "$out" | grep -c '^VIOLATION') violations | $(echo "$out" | grep -m1 'violated\|^OK\|INCONCL' | cut -c1-220)"
done
