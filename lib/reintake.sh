#!/bin/bash
# re-runs the intake of every stored sub-agent change with the current harness (refreshes seeded/*/meta.json)
cd /verif
for d in seeded/C*-m*; do
  n=$(basename $d); pid=${n%%-*}; m=${n##*-}
  extra=""
  case $n in C10-m4) extra="C11";; C14-m3) extra="C17";; esac
  lib/intake.sh $pid $m $extra
done
