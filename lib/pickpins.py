#!/usr/bin/env python3
"""Groups replay files by failure signature and prints the smallest of each group."""
import json, os, re, sys, glob
root = sys.argv[1] if len(sys.argv) > 1 else '/verif/replays'
for pid in sorted(os.listdir(root)):
    groups = {}
    for f in glob.glob(os.path.join(root, pid, '*.json')):
        r = json.load(open(f))
        e = r.get('error', '')
        first = e.split('\n')[0]
        sig = re.sub(r'"[^"]*"', '"…"', first)
        sig = re.sub(r'\[[^\]]*\]', '[…]', sig)
        sig = re.sub(r'[0-9a-f]{7,40}', '<id>', sig)
        sig = re.sub(r'\d+', 'N', sig)
        # panics: include the panic message
        m = re.search(r'panic: ([^\n]*)', e)
        if m:
            sig += ' PANIC ' + re.sub(r'`[^`]*`', '`…`', m.group(1))[:80]
        size = len(json.dumps(r['case']))
        groups.setdefault(sig, []).append((size, f))
    print('==', pid)
    for sig, fs in sorted(groups.items()):
        fs.sort()
        print('  %3d x  %-160s  smallest=%s (%d bytes)' % (len(fs), sig[:160], os.path.basename(fs[0][1]), fs[0][0]))
