#!/usr/bin/env python3
"""Copies the smallest replay of each failure-signature group into regress/<pid>/ (max N per property)."""
import json, os, re, sys, glob, shutil
root, maxn = '/verif/replays', 6
for pid in sorted(os.listdir(root)):
    groups = {}
    for f in glob.glob(os.path.join(root, pid, '*.json')):
        r = json.load(open(f)); e = r.get('error', ''); first = e.split('\n')[0]
        sig = re.sub(r'"[^"]*"', '"…"', first); sig = re.sub(r'\[[^\]]*\]', '[…]', sig)
        sig = re.sub(r'[0-9a-f]{7,40}', '<id>', sig); sig = re.sub(r'\d+', 'N', sig)
        sig = re.sub(r'after (add|commit|rm) .*?: status failed', 'status failed', sig)
        m = re.search(r'panic: ([^\n]*)', e)
        if m: sig += ' PANIC ' + re.sub(r'`[^`]*`', '`…`', m.group(1))[:60]
        if 'robust' in sig and m: sig = 'robust PANIC ' + re.sub(r'`[^`]*`', '`…`', m.group(1))[:60]
        groups.setdefault(sig, []).append((len(json.dumps(r['case'])), f))
    picks = sorted((sorted(v)[0] for v in groups.values()))[:maxn]
    os.makedirs('/verif/regress/' + pid, exist_ok=True)
    for size, f in picks:
        if size > 20000: continue
        dst = '/verif/regress/%s/orig-%s' % (pid, os.path.basename(f))
        shutil.copy(f, dst); print(pid, dst, size)
