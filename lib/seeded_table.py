#!/usr/bin/env python3
"""Prints Appendix D of DESIGN.md (markdown) from seeded/*/meta.json and seeded/self/results.txt."""
import json, glob, os, re
FIRST_MISSED = {  # caught only after the extension named here (recorded while triaging the first intake)
 "C02-m2": "commit messages containing `%` (and other punctuation) added to the message generator",
 "C04-m1": "new step `file2dir` (a tracked file replaced by a directory holding an untracked file) in profile `stage`",
 "C04-m2": "non-canonical spellings of path arguments (`./p`, `d//p`, `d/./p`, `d/../d/p`) in add/rm/restore generators, oracles clean the arguments",
 "C05-m1": "names with trailing blanks (no longer trimmed by the component generator)",
 "C10-m2": "dot-leading and other unusual branch names (`.wip`, `.a`, `b.`, `_`, `0`) in the pools",
 "C11-m1": "commit messages that start with a line break",
 "C11-m2": "journal oracle: a position that reflog displays must not be refused by reset",
 "C12-m2": "user names over the whole printable domain (`%`, `$`, `&`, quotes, brackets, ...)",
 "C17-m1": "`.goitignore` (re)written later in the history, so that tracked paths become ignored; oracle refined (Appendix B, 10)",
 "C17-m2": "absolute and parent-relative spellings of `add` arguments (`$PWD`, `../w`, `$PWD/.goit/config`)",
 "C18-m2": "invalid-by-construction lines `<valid path> <unknown path>` for add/rm/restore",
 # round 2 (m3/m4)
 "C01-m3": "C01 CLI ends with rm of everything, write-tree and commit: the zero-length tree must be stored and retrievable",
 "C02-m3": "history keeps the blob id of the bytes each path had at its last add (clause 3 is checked against it); new step `revert` (a file goes back to bytes it held before)",
 "C03-m4": "branch names N and N.tmp / N.lock in the pools",
 "C05-m3": "tracked file replaced by a directory with both staged (`file2dir` in profiles commit/readback, shadow entries in crafted staging areas)",
 "C05-m4": "twin directories with identical content (`copydir` step; twin sub-trees in crafted staging areas)",
 "C06-m4": "new part TestC06Large: staging areas of up to 400 entries / 70 KiB whose size sweeps across 4096/8192/65536",
 "C10-m4": "not caught by C10 — it is a journal defect (a successful switch adds no entry) and is caught by C11",
 "C12-m3": "identity configured locally, globally or mixed in the C12 CLI layer",
 "C12-m4": "message lines around 4096 / 8192 bytes and up to 10 KiB",
 "C13-m3": "new step `recreate-unstaged` (a path that was committed and unstaged comes back as an untracked file)",
 "C14-m3": "neutralised: after the repair of the ignore translation (`.goitignore` entries are quoted) the seeded check never fires for `name/` and `*.ext` entries; its demonstration passes on the repaired tree",
 "C16-m4": "fault corpus states with several sibling directories (a failing readdir followed by a succeeding one)",
 "C17-m3": "directories carrying an ignorable extension, `dir2file` step, three-valued ignore classification (ignored / not ignored / unspecified)",
 "C17-m4": "extension pairs where one is a prefix of the other (`.tmp`, `.tmpx`) and a drawn order of the `.goitignore` entries",
 "C18-m4": "unusual but legal branch names (trailing blank, ': ') created in the history prefix, followed by commit / reset",
 "C19-m3": "quick tier mutates the first 64 positions of every file completely (the count field of the index header)",
 "C20-m4": "config values whose line crosses 4096 / 8192 bytes",
 # round 3 (m5/m6)
 "C02-m6": "branch names that differ only by a trailing blank (`w`, `w `, ` w`) in the pools; with the final harness it is C10 that catches it within the quick budget",
 "C04-m6": "paths longer than 255 bytes (two long directory components) in the path generator and in the C06 universe",
 "C06-m5": "rm oracle: overlapping / repeated arguments must succeed too (the tolerance dated from the pinned tree)",
 "C08-m5": "confusable siblings that are DIRECTORIES (`lib/` next to `lib-old/`)",
 "C09-m6": "file names that are not valid UTF-8 (`r\\xe9sum\\xe9`, `\\xff`); replay files and driver made safe for such bytes",
 "C13-m5": "directory names that END in the name of an ignore entry (`rebuild/` under a `build/` entry)",
 "C13-m6": "`%` in file names",
 "C14-m5": "`log -n` with values up to 2^63-1",
 "C14-m6": "identity drawn from the whole name domain in the prelude of every scenario profile (was fixed to `Test User`); caught by C12 before",
 "C17-m6": "`.goitignore` written with CRLF line ends and without a final newline",
 "C18-m6": "`head@{0}` / `Head@{1}` and blank-padded positions in the reset arguments of the C18 grammar",
 # round 4 (m7/m8)
 "C01-m7": "the C01 CLI commit takes a drawn message (CR / CRLF line ends among them) and the stored commit object must decode to it; kept against the tree it was written for (54b0103), the later rewrite of the commit reader (94d2f19) replaced the lines it changes",
 "C01-m8": "one `hash-object` call over several files (reverse order, one file twice) in the C01 CLI layer",
 "C03-m7": "hostile branch names built as `../`^k + a real file of the repository (HEAD, index, an object file by symbolic id, a branch, a log); was caught by C10 before",
 "C03-m8": "not caught by C03 within the quick budget (the HEAD reader trims blanks: needs branches `w` and `w ` and the deletion of the current one); caught by C10, whose name generator now prefers names related to existing ones",
 "C04-m8": "path components that START with the byte 0xFF (`\\xffz`, `\\xff.go`)",
 "C05-m7": "message lines that look like commit header fields and quote ids of existing trees / commits (`tree {{tree#n}}`), drawn for a fifth of the commits of EVERY profile; patch carried over to the rewritten commit reader (patch.ported.diff)",
 "C06-m7": "more reset / commit steps in the index profile (the `%` directory names were there already; detection was a matter of chance)",
 "C07-m7": "same extension as C05-m7 (header-like message lines); patch carried over (patch.ported.diff)",
 "C08-m7": "untracked temp-like siblings of tracked files (`P.tmp`, `P~`, `P.lock`, `.P.tmp`) written by a new step in the stage / reset / restore profiles",
 "C08-m8": "reset oracle: after --mixed / --hard `status` must list nothing staged (entries that are present but cannot be looked up show there)",
 "C09-m7": "the violation was found but did not reproduce through the replay path (absolute spellings carried the sandbox directory of the generating run): such arguments are now stored as `{{work}}/p`",
 "C11-m8": "journal profile configures identities with an inner tab (and other separators of the journal line)",
 "C13-m7": "NOT caught: needs the ignore entry `.*` (or `.`, `*.`, `*.*`), a form whose meaning the properties do not state; the unchanged tree already treats `add .` as ignored under that entry (Appendix B, 18)",
 "C14-m7": "branch names with a line break, in the log profile only (Appendix B, 16)",
 "C14-m8": "not caught by C14 within the quick budget (needs HEAD on `X.tmp`, then the branch file of `X` written); the same one-line change is C02-m8 and is caught by C02 and C10",
 "C16-m7": "commands that are refused fault-free (update-ref to a blob / tree id, duplicate names, unknown paths) enumerated under single faults",
 "C16-m8": "fault corpus states with a `.goitignore` and ignored files",
 "C17-m7": "`.goitignore` files of 400 … 800 entries (more than 4 KiB / 8 KiB); patch carried over after the ignore fixes (patch.ported.diff)",
 "C17-m8": "arguments of one `add` call that are string prefixes of each other without lying beneath each other (`lib`, `lib2/b.c`); patch carried over (its import was removed by 54b0103)",
 "C18-m7": "caught after the general extensions of this round (deeper directory arguments for restore --staged); also caught by C09 and C06",
 "C19-m7": "`reflog-tail` loader: arbitrary lines (one up to 3 MiB) followed by genuine records whose positions must not move; patch carried over to the repaired reader (patch.ported.diff)",
 "C19-m8": "crafted staging areas with one path beneath 200 … 1500 directories (C05), since the byte-level decoders cannot reach a depth limit",
 "C20-m7": "config keys and sections with brackets, `#`, `;`",
 "C20-m8": "awkward identities (`dev -> ops`, `a > b`, `Ada Tester #2`, …) and the C20 oracle demands that commit succeeds with a usable identity",
 "C02-m7": "identities that contain ` #` / ` ;` or start with them",
 "C10-m8": "not caught by C10 — a journal defect (records with an empty message become unreadable, `reset HEAD@{n}` counts wrongly) caught by C11",
 "C12-m7": "not caught by C12 — the local-over-global clause is checked by C20, which catches it (a `config` call that repeats the value in effect in the other scope is dropped)",
 "C12-m8": "C12 CLI cases are now short histories of commits made under different offsets and read by ONE `log` process (the API layer saw it, but a per-case replay in a fresh process cannot reproduce cross-commit state)",
 # round 5 (m9/m10); the agents also hunted for violations in the unchanged tree, see Appendix C from 792f566 on
 "C01-m9": "not caught by C01 (needs a tree of a page or more whose first child is such a tree, read by one process); caught by C05 since its crafted staging areas hold two big directories, one inside the other",
 "C01-m10": "not caught by C01 (needs one blob above 1 MiB staged under two paths and checked out twice by one `reset --hard`); caught by C08 since the reset profile writes big twin contents",
 "C02-m9": "`commit` with the message of an earlier commit after a `reset --soft` to its parent (a byte-identical commit object within the same second)",
 "C03-m9": "neutralised by ba727ef (branch names with control characters are refused): its demonstration passes on the repaired tree",
 "C03-m10": "neutralised by 9186634 (config refuses values with line breaks): its demonstration passes on the repaired tree; C20 still flags the escaping it adds",
 "C04-m9": "NOT caught: needs two names of one inode (a hard link) in the working tree; links are outside the generated domain (DESIGN 8.4)",
 "C04-m10": "argument spelled with a detour through the metadata directory (`.goit/../p`)",
 "C05-m9": "path components of 120 … 506 bytes in crafted staging areas (mode + name = 256 bytes)",
 "C05-m10": "not caught by C05; zero-padded reflog positions (`HEAD@{08}`, `HEAD@{010}`) in the reset generator let C08 and C11 catch it",
 "C06-m9": "not caught in any quick tier (needs a tracked FILE named like a `name/` ignore entry, deleted, named to `add`, with a sibling whose name extends it sorting next); the stage profile (C04) now runs a quarter of its histories with an ignore list and its oracle follows the ignore classes, and its THOROUGH tier catches the change (6 of 16 shards)",
 "C06-m10": "NOT caught on purpose: it only acts on a staging area that holds a name both as a file and as a directory, about which the oracles are silent (DESIGN 8.4)",
 "C07-m9": "neutralised by 792f566 (the new-file test no longer goes through the tree lookup it changes)",
 "C07-m10": "`.goitignore` rewritten later (`ignore-more`) in the diff profile; was caught by C13 before",
 "C08-m9": "NOT caught: needs goit to run from a sub-directory, outside the generated domain (DESIGN 8.4)",
 "C08-m10": "`.goitignore` rewritten later in the reset profile; patch carried over (patch.ported.diff)",
 "C09-m9": "`.goitignore` rewritten later in the restore profile",
 "C10-m9": "not caught by C10; zero-padded reflog positions let C08 and C11 catch it; patch carried over",
 "C10-m10": "branch names that are the 40-digit id of a stored commit or tree",
 "C11-m9": "neutralised by ba727ef (its trigger is a branch name with a line break)",
 "C11-m10": "zero-padded reflog positions; patch carried over",
 "C12-m9": "first missed (the generated zones had one fixed offset each); caught since the C12 API layer reads two thirds of its commits in a process whose own zone has a transition (stored offset = the reader's offset today or its former one, commit older or younger than the transition)",
 "C12-m10": "names in quotes; was caught by C20 before",
 "C13-m9": "caught as built (a last report line that ends in a blank); patch carried over",
 "C13-m10": "a second non-ASCII directory entry that is valid UTF-8 (`é-old/`), so that entry and path differ in validity",
 "C14-m9": "NOT caught: needs goit to run from a sub-directory that holds a regular file named `.goit`; patch carried over",
 "C14-m10": "names that contain the e-mail address",
 "C15-m9": "after every crash point a new file is added and committed in a clone and the result must be connected; the corpus stages nested new directories (its demonstration is tied to the former name of the object temp file and exits 2)",
 "C16-m10": "fault corpus: creating branches whose names sort before the existing ones, with three branches present",
 "C17-m9": "same extension as C13-m10",
 "C17-m10": "two-part extension `*.tar.gz` in the ignore lists and, in 40 % of the files written for it, a plain `.gz` sibling that sorts first in the same directory",
 "C18-m10": "NOT caught: needs an argument that names an existing file OUTSIDE the working tree, outside the generated domain (Appendix B, 3)",
 "C19-m10": "a fourth kind of damage in the C19 CLI layer: two bytes inserted (a branch file that holds an id followed by further hex digits)",
 "C20-m9": "names with a backslash followed by `t`, `n`, `r`",
 "C10-m6": "the violation was found but could not be replayed (the step carried a commit id of the generating run): steps now name commits symbolically (`@commit#n`)",
 # round 6 (m11/m12; 36 changes, the agents worked under a time limit of about 25 minutes)
 "C03-m12": "not caught by C03 (the staged metadata file only disconnects the repository after a later `rm`); caught by C17, whose `add` arguments include absolute spellings of paths inside `.goit`",
 "C05-m12": "not caught by C05 — a journal defect (the checkout record of `switch` carries the id of the branch that was left); caught by C11",
 "C10-m11": "C10 API layer: a `bulk` operation creates 255 … 513 branches and a fresh `NewRefs` (what the next process sees) must list every one of them; `reload` operations in the middle of the history",
 "C10-m12": "branch names of 240, 255 and 255 bytes (one a 240-byte prefix of another) in the branch pool of every profile",
 "C12-m12": "e-mail addresses over the whole shape `commit` accepts: top-level labels of 2 … 14 letters, upper-case host labels, longer local parts (was 2 … 5 letters)",
 "C13-m12": "`.goitignore` entries whose last byte is a blank (`*.tmp `, with files `a.tmp ` next to `a.tmp`)",
 "C14-m12": "not caught by C14 (its oracle compares messages without their final line breaks); caught by C02, which demands the recorded message byte for byte",
 "C17-m11": "ignore entries and directories whose name starts with `#` or `!` (`#a/`, `!x/`): an entry is a name, not a remark or a negation",
 "C18-m12": "`add` may name a tracked path whose parent directory was replaced by a regular file (stat answers ENOTDIR), and the robustness profile got the `dir2file` / `file2dir` steps; also caught by C04",
 "C19-m11": "the C19 repository holds the zero-length blob, so that the object swaps include an object file whose content has no byte to compare (the first run 'caught' it only through the then unrepaired defect 51d54b4)",
 "C20-m12": "new step `forget-global-config` (the global file disappears after the history began): a commit with an identity that has become incomplete must be refused without side effects",
 "C09-m12": "caught as built (names that start with the byte 0xFF); patch carried over, its import hunk collided with 51d54b4 (patch.ported.diff)",
}
print("### D.1 Changes written by independent sub-agents (`seeded/<ID>-mN/`)\n")
print("Each was confirmed with `lib/intake.sh` when it was written (demonstration exits 0 on the clean tree; with the patch the tree builds, the unit tests pass, the demonstration exits 1). \"quick check\" is the exit status of the property's quick tier (and of neighbouring checks where named) against the patched tree in the last re-run with the final harness. `/repo` moved on by more than twenty repairs after rounds 3 and 4: where a patch no longer applies to the final tree, a hand-carried version (`patch.ported.diff`) was used if there is one; otherwise the patch was applied to the tree of its round (marked *old base*), on which the final checks also flag that tree's own, since repaired, defects — an exit 1 there says little, and \"confirmation incomplete\" then only means that the demonstration no longer distinguishes. A demonstration that passes on the final tree with the patch means that a later repair neutralised the change. The record that counts for those rows is the *first detection* column, written when the change was first taken in.\n")
print("| change | what it needs in order to manifest (from the author's notes) | quick check | first detection |")
print("|---|---|---|---|")
for d in sorted(glob.glob('/verif/seeded/C*-m*')):
    name = os.path.basename(d)
    try:
        m = json.load(open(os.path.join(d, 'meta.json')))
    except Exception:
        continue
    notes = m.get('needs_to_manifest', '')
    # first informative sentence of the notes
    txt = re.sub(r'[#*`>\n]+', ' ', notes)
    txt = re.sub(r'\s+', ' ', txt).strip()
    mm = re.search(r'(manifest|trigger|needs|Needs|Trigger|Manifest)[^.]*\.[^.]*\.', txt)
    short = (mm.group(0) if mm else txt)[:230]
    res = m.get('checks_run', [])
    st = ', '.join('%s exit %s' % (r.get('check'), r.get('exit')) for r in res if isinstance(r, dict) and 'check' in r)
    conf = m.get('confirmed', {})
    ok = conf.get('demo_exit_on_clean_tree') == '0' and conf.get('demo_exit_with_patch') == '1' and conf.get('unit_test_failures_with_patch') == 0
    first = "as built" if name not in FIRST_MISSED else "after extension: " + FIRST_MISSED[name]
    base = m.get('applied_to', 'HEAD')
    tag = "" if ok else " (confirmation incomplete)"
    if not base.startswith('HEAD'):
        tag += " (*old base* %s)" % base
    elif 'ported' in base:
        tag += " (ported)"
    print("| `%s`%s | %s | %s | %s |" % (name, tag, short.replace('|', '\\|'), st, first))
print("\n### D.2 Self-made sensitivity changes (`seeded/self/*.diff`, from the sensitivity targets of section 4)\n")
print("| change | checks run | result |")
print("|---|---|---|")
cur = None
rows = {}
if os.path.exists('/verif/seeded/self/results.txt'):
    for ln in open('/verif/seeded/self/results.txt'):
        ln = ln.rstrip()
        if ln.startswith('== '):
            cur = ln[3:]
            rows[cur] = []
        elif cur and re.match(r'^C\d+ rc=', ln):
            rows[cur].append(re.sub(r' \|.*', '', ln))
        elif cur and ln.startswith('unit-test failures') and not ln.endswith(': 0'):
            rows[cur].append(ln)
NOTE = {
 "c17-drop-goit-pattern-for-dot": "equivalent: the children of `.goit` are still filtered one by one",
 "c19-drop-len-check": "equivalent under the checksum comparison of `GetObject`",
 "c20-write-only-changed-section": "equivalent: no section is ever empty",
 "c15-reset-index-before-branch": "not a violation of C15 as stated (Appendix B, 8)",
 "c10-add-no-resort": "also fails 4 existing unit tests (kept as a sanity case)",
}
for k in sorted(rows):
    name = k.split(' ')[0]
    props = k[k.find('(') + 1:k.rfind(')')] if '(' in k else ''
    print("| `%s` | %s | %s%s |" % (name, props, '; '.join(rows[k]), (' — ' + NOTE[name]) if name in NOTE else ''))
