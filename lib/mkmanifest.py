#!/usr/bin/env python3
"""Regenerates /verif/MANIFEST.json from lib/manifest_table.py (keeps it valid at all times)."""
import json, os, sys
sys.path.insert(0, os.path.dirname(os.path.abspath(__file__)))
from manifest_table import CHECKS, NOT_APPLICABLE, HOOKS, NOTES
from plan import LEVEL

VERIF = os.path.dirname(os.path.dirname(os.path.abspath(__file__)))
checks = []
for pid, c in sorted(CHECKS.items()):
    checks.append({
        "property_id": pid,
        "quick_cmd": "./check %s --tier quick" % pid,
        "thorough_cmd": "./check %s --tier thorough" % pid,
        "evidence_file": "/verif/evidence/%s.json" % pid,
        "replay_cmd_template": "./check %s --replay {path}" % pid,
        "engine": "harness",
        "level_claimed": {"category": LEVEL.get(pid, "exploration"), "text": c["level_text"], "design_ref": "DESIGN.md section 4, " + pid},
        "level_note": c["level_note"],
        "technique": c["technique"],
    })
m = {
    "version": 1,
    "setup_cmd": "./check setup",
    "hooks": HOOKS,
    "engines": [{"name": "harness", "path": "/verif/harness", "serves_properties": sorted(CHECKS),
                 "kind_free_text": "Go module (pgregory.net/rapid v1.3.0 + native go fuzzing) driven by /verif/check; "
                                   "independent decoders in core/gitfmt; scenario machine in cli/; internal-API checks in api/"}],
    "checks": checks,
    "not_applicable": [{"property_id": k, "reason": v} for k, v in sorted(NOT_APPLICABLE.items())],
    "notes": NOTES,
}
json.dump(m, open(os.path.join(VERIF, "MANIFEST.json"), "w"), indent=1)
print("MANIFEST.json: %d checks, %d not_applicable" % (len(checks), len(NOT_APPLICABLE)))
