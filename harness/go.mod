module github.com/JunNishimura/Goit/verifharness

go 1.23

toolchain go1.23.5

require (
	github.com/JunNishimura/Goit v0.0.0
	pgregory.net/rapid v1.3.0
)

replace github.com/JunNishimura/Goit => /repo
