// osrewrite copies a Goit working tree (without .git) and rewrites, by source
// positions obtained from go/parser, every selector os.X (X a file-system
// operation) into vos.X and time.Now into vos.Now, so that crash points and I/O
// faults can be injected without any hook in the repository itself. Line numbers
// stay identical to the original.
package main

import (
	"flag"
	"fmt"
	"go/ast"
	"go/parser"
	"go/token"
	"io"
	"os"
	"path/filepath"
	"sort"
	"strings"
)

var osFuncs = map[string]bool{"Create": true, "Open": true, "OpenFile": true, "ReadFile": true, "WriteFile": true, "ReadDir": true,
	"Mkdir": true, "MkdirAll": true, "Remove": true, "RemoveAll": true, "Rename": true, "CreateTemp": true, "File": true}

func main() {
	src := flag.String("src", "/repo", "repository working tree")
	dst := flag.String("dst", "", "destination directory")
	shim := flag.String("shim", "", "directory holding vos.go")
	flag.Parse()
	if *dst == "" || *shim == "" {
		fmt.Fprintln(os.Stderr, "usage: osrewrite -src DIR -dst DIR -shim DIR")
		os.Exit(2)
	}
	total := 0
	err := filepath.Walk(*src, func(p string, info os.FileInfo, err error) error {
		if err != nil {
			return err
		}
		rel, _ := filepath.Rel(*src, p)
		if info.IsDir() {
			if info.Name() == ".git" || rel == "internal/vos" {
				return filepath.SkipDir
			}
			return os.MkdirAll(filepath.Join(*dst, rel), 0o755)
		}
		out := filepath.Join(*dst, rel)
		if strings.HasSuffix(p, ".go") && !strings.HasSuffix(p, "_test.go") {
			n, err := rewrite(p, out)
			total += n
			return err
		}
		if strings.HasSuffix(p, "_test.go") {
			return nil // tests are not needed in the instrumented copy
		}
		return copyFile(p, out)
	})
	if err != nil {
		fmt.Fprintln(os.Stderr, "osrewrite:", err)
		os.Exit(1)
	}
	vdir := filepath.Join(*dst, "internal", "vos")
	if err := os.MkdirAll(vdir, 0o755); err != nil {
		fmt.Fprintln(os.Stderr, err)
		os.Exit(1)
	}
	if err := copyFile(filepath.Join(*shim, "vos.go"), filepath.Join(vdir, "vos.go")); err != nil {
		fmt.Fprintln(os.Stderr, err)
		os.Exit(1)
	}
	fmt.Printf("osrewrite: %d call sites rewritten\n", total)
}

func copyFile(a, b string) error {
	in, err := os.Open(a)
	if err != nil {
		return err
	}
	defer in.Close()
	out, err := os.Create(b)
	if err != nil {
		return err
	}
	defer out.Close()
	_, err = io.Copy(out, in)
	return err
}

type edit struct {
	off  int
	old  string
	repl string
}

func rewrite(in, out string) (int, error) {
	srcBytes, err := os.ReadFile(in)
	if err != nil {
		return 0, err
	}
	fset := token.NewFileSet()
	f, err := parser.ParseFile(fset, in, srcBytes, parser.ParseComments)
	if err != nil {
		return 0, err
	}
	// only rewrite when "os" / "time" are the standard packages under their default names
	osName, timeName := "", ""
	for _, im := range f.Imports {
		path := strings.Trim(im.Path.Value, `"`)
		name := ""
		if im.Name != nil {
			name = im.Name.Name
		}
		if path == "os" {
			osName = "os"
			if name != "" {
				osName = name
			}
		}
		if path == "time" {
			timeName = "time"
			if name != "" {
				timeName = name
			}
		}
	}
	var edits []edit
	ast.Inspect(f, func(n ast.Node) bool {
		sel, ok := n.(*ast.SelectorExpr)
		if !ok {
			return true
		}
		id, ok := sel.X.(*ast.Ident)
		if !ok || id.Obj != nil {
			return true
		}
		if osName != "" && id.Name == osName && osFuncs[sel.Sel.Name] {
			edits = append(edits, edit{fset.Position(id.Pos()).Offset, id.Name, "vos"})
		}
		if timeName != "" && id.Name == timeName && sel.Sel.Name == "Now" {
			edits = append(edits, edit{fset.Position(id.Pos()).Offset, id.Name, "vos"})
		}
		return true
	})
	if len(edits) == 0 {
		return 0, os.WriteFile(out, srcBytes, 0o644)
	}
	sort.Slice(edits, func(i, j int) bool { return edits[i].off > edits[j].off })
	s := string(srcBytes)
	for _, e := range edits {
		if s[e.off:e.off+len(e.old)] != e.old {
			return 0, fmt.Errorf("%s: offset mismatch", in)
		}
		s = s[:e.off] + e.repl + s[e.off+len(e.old):]
	}
	// add the import right after the package clause, on the same line (line numbers are preserved)
	pkgEnd := fset.Position(f.Name.End()).Offset
	s = s[:pkgEnd] + `; import vos "github.com/JunNishimura/Goit/internal/vos"` + s[pkgEnd:]
	// keep the original imports used even if every use was rewritten
	tail := "\n"
	if osName != "" {
		tail += "var _ " + osName + ".FileMode\n"
	}
	if timeName != "" {
		tail += "var _ " + timeName + ".Time\n"
	}
	s += tail
	return len(edits), os.WriteFile(out, []byte(s), 0o644)
}
