// Package vos is a drop-in shim for the os.* calls of Goit's own source. It is
// copied to internal/vos of a scratch copy of the repository by tools/osrewrite,
// which also rewrites every call site. Controlled by environment variables:
//
//	VERIF_SHIM_LOG=<file>   append one line per operation: "<mod#> <fault#> <kind> <path>"
//	VERIF_CRASH_AT=<k>      SIGKILL the process immediately before modification number k
//	VERIF_FAIL_AT=<k>       the k-th faultable operation fails with VERIF_FAIL_ERRNO (EIO, ENOSPC, EACCES)
//	VERIF_FAIL_SHORT=1      a failing write first writes half of its data
//	VERIF_NOW=<unix>        frozen clock
//
// Without these variables every function passes through to package os.
package vos

import (
	"fmt"
	"io/fs"
	"os"
	"strconv"
	"strings"
	"syscall"
	"time"
)

var (
	logPath  = os.Getenv("VERIF_SHIM_LOG")
	crashAt  = atoi(os.Getenv("VERIF_CRASH_AT"))
	failAt   = atoi(os.Getenv("VERIF_FAIL_AT"))
	failErr  = errnoOf(os.Getenv("VERIF_FAIL_ERRNO"))
	short    = os.Getenv("VERIF_FAIL_SHORT") == "1"
	nowFixed = atoi(os.Getenv("VERIF_NOW"))
	nMod     int
	nFault   int
	logFile  *os.File
)

func atoi(s string) int { n, _ := strconv.Atoi(s); return n }

func errnoOf(s string) error {
	switch s {
	case "ENOSPC":
		return syscall.ENOSPC
	case "EACCES":
		return syscall.EACCES
	default:
		return syscall.EIO
	}
}

func logf(kind, path string, mod bool) {
	if logPath == "" {
		return
	}
	if logFile == nil {
		f, err := os.OpenFile(logPath, os.O_WRONLY|os.O_CREATE|os.O_APPEND, 0o644)
		if err != nil {
			return
		}
		logFile = f
	}
	m := "-"
	if mod {
		m = strconv.Itoa(nMod)
	}
	fmt.Fprintf(logFile, "%s %d %s %s\n", m, nFault, kind, path)
}

// step is called before every operation. mod: the operation modifies the file
// system; it returns the injected error, if this is the operation to fail.
func step(kind, path string, mod bool) error {
	if mod {
		nMod++
		if crashAt != 0 && nMod == crashAt {
			logf("CRASH-BEFORE-"+kind, path, true)
			if logFile != nil {
				logFile.Sync()
			}
			syscall.Kill(syscall.Getpid(), syscall.SIGKILL)
			select {}
		}
	}
	nFault++
	logf(kind, path, mod)
	if failAt != 0 && nFault == failAt {
		logf("FAULT-"+kind, path, mod)
		return &fs.PathError{Op: kind, Path: path, Err: failErr}
	}
	return nil
}

// ---------------------------------------------------------------- files

type File struct {
	*os.File
	path     string
	writable bool
}

func wrap(f *os.File, err error, path string, writable bool) (*File, error) {
	if err != nil {
		return nil, err
	}
	return &File{File: f, path: path, writable: writable}, nil
}

func Create(name string) (*File, error) {
	if err := step("create", name, true); err != nil {
		return nil, err
	}
	f, err := os.Create(name)
	return wrap(f, err, name, true)
}

func Open(name string) (*File, error) {
	if err := step("open", name, false); err != nil {
		return nil, err
	}
	f, err := os.Open(name)
	return wrap(f, err, name, false)
}

func OpenFile(name string, flag int, perm os.FileMode) (*File, error) {
	w := flag&(os.O_WRONLY|os.O_RDWR|os.O_CREATE|os.O_TRUNC|os.O_APPEND) != 0
	kind := "open"
	if w {
		kind = "openw"
	}
	if err := step(kind, name, w); err != nil {
		return nil, err
	}
	f, err := os.OpenFile(name, flag, perm)
	return wrap(f, err, name, w)
}

func (f *File) Write(b []byte) (int, error) {
	if err := step("write", f.path, true); err != nil {
		if short && len(b) > 1 {
			n, _ := f.File.Write(b[:len(b)/2])
			return n, err
		}
		return 0, err
	}
	return f.File.Write(b)
}

func (f *File) WriteString(s string) (int, error) { return f.Write([]byte(s)) }

func (f *File) Read(b []byte) (int, error) {
	if err := step("read", f.path, false); err != nil {
		return 0, err
	}
	return f.File.Read(b)
}

func (f *File) Close() error { return f.File.Close() }

// ---------------------------------------------------------------- package-level functions

func ReadFile(name string) ([]byte, error) {
	if err := step("readfile", name, false); err != nil {
		return nil, err
	}
	return os.ReadFile(name)
}

func WriteFile(name string, data []byte, perm os.FileMode) error {
	f, err := OpenFile(name, os.O_WRONLY|os.O_CREATE|os.O_TRUNC, perm)
	if err != nil {
		return err
	}
	if _, err := f.Write(data); err != nil {
		f.Close()
		return err
	}
	return f.Close()
}

func ReadDir(name string) ([]os.DirEntry, error) {
	if err := step("readdir", name, false); err != nil {
		return nil, err
	}
	return os.ReadDir(name)
}

func Mkdir(name string, perm os.FileMode) error {
	if err := step("mkdir", name, true); err != nil {
		return err
	}
	return os.Mkdir(name, perm)
}

func MkdirAll(name string, perm os.FileMode) error {
	if fi, err := os.Stat(name); err == nil && fi.IsDir() {
		return nil // nothing to modify
	}
	if err := step("mkdirall", name, true); err != nil {
		return err
	}
	return os.MkdirAll(name, perm)
}

func Remove(name string) error {
	if err := step("remove", name, true); err != nil {
		return err
	}
	return os.Remove(name)
}

func RemoveAll(name string) error {
	if err := step("removeall", name, true); err != nil {
		return err
	}
	return os.RemoveAll(name)
}

func Rename(oldpath, newpath string) error {
	if err := step("rename", oldpath+" -> "+newpath, true); err != nil {
		return err
	}
	return os.Rename(oldpath, newpath)
}

func CreateTemp(dir, pattern string) (*File, error) {
	if err := step("create", dir+"/"+pattern, true); err != nil {
		return nil, err
	}
	f, err := os.CreateTemp(dir, pattern)
	if err != nil {
		return nil, err
	}
	return &File{File: f, path: f.Name(), writable: true}, nil
}

// Now is the (possibly frozen) clock.
func Now() time.Time {
	if nowFixed != 0 {
		return time.Unix(int64(nowFixed), 0)
	}
	return time.Now()
}

var _ = strings.TrimSpace
