// Package tz writes minimal TZif files so that a goit process can be run
// under any fixed UTC offset (Go's TZ loader accepts TZ=/abs/path).
package tz

import (
	"bytes"
	"encoding/binary"
	"fmt"
	"os"
	"path/filepath"
)

// Bytes returns a TZif version-1 file with a single local time type at the
// given offset (seconds east of UTC).
func Bytes(offsetSec int) []byte {
	var b bytes.Buffer
	b.WriteString("TZif")
	b.WriteByte(0)              // version 1
	b.Write(make([]byte, 15))   // reserved
	for _, v := range []uint32{ // isutcnt, isstdcnt, leapcnt, timecnt, typecnt, charcnt
		0, 0, 0, 0, 1, 4,
	} {
		binary.Write(&b, binary.BigEndian, v)
	}
	binary.Write(&b, binary.BigEndian, int32(offsetSec)) // utoff
	b.WriteByte(0)                                       // isdst
	b.WriteByte(0)                                       // abbreviation index
	b.WriteString("FIX\x00")
	return b.Bytes()
}

// BytesSwitch returns a TZif version-1 file of a zone that was at beforeSec
// (seconds east of UTC) until the instant at (unix seconds, must fit 32 bits)
// and is at afterSec since then: the shape of a zone with daylight saving
// time or with a changed standard offset.
func BytesSwitch(beforeSec, afterSec int, at int64) []byte {
	var b bytes.Buffer
	b.WriteString("TZif")
	b.WriteByte(0)
	b.Write(make([]byte, 15))
	for _, v := range []uint32{0, 0, 0, 1, 2, 8} { // isutcnt, isstdcnt, leapcnt, timecnt, typecnt, charcnt
		binary.Write(&b, binary.BigEndian, v)
	}
	binary.Write(&b, binary.BigEndian, int32(at)) // the one transition ...
	b.WriteByte(1)                                // ... goes to local time type 1
	binary.Write(&b, binary.BigEndian, int32(beforeSec))
	b.WriteByte(0)
	b.WriteByte(0)
	binary.Write(&b, binary.BigEndian, int32(afterSec))
	b.WriteByte(0)
	b.WriteByte(4)
	b.WriteString("OLD\x00NEW\x00")
	return b.Bytes()
}

// File writes the TZif file for the offset (in minutes) into dir and returns its path.
func File(dir string, offsetMin int) (string, error) {
	p := filepath.Join(dir, fmt.Sprintf("tz_%d", offsetMin))
	if _, err := os.Stat(p); err == nil {
		return p, nil
	}
	return p, os.WriteFile(p, Bytes(offsetMin*60), 0o644)
}

// AllQuarterHours lists every quarter-hour offset in [-12:00, +14:00], in minutes.
func AllQuarterHours() []int {
	var out []int
	for m := -12 * 60; m <= 14*60; m += 15 {
		out = append(out, m)
	}
	return out
}

// Format renders minutes as "+HHMM" / "-HHMM".
func Format(offsetMin int) string {
	s := "+"
	if offsetMin < 0 {
		s = "-"
		offsetMin = -offsetMin
	}
	return fmt.Sprintf("%s%02d%02d", s, offsetMin/60, offsetMin%60)
}
