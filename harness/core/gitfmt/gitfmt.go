// Package gitfmt holds the independent decoders of Goit's on-disk formats.
// It shares no code with /repo: only compress/zlib, crypto/sha1 and the
// documented layouts are used. It is the trusted base of most oracles.
package gitfmt

import (
	"bytes"
	"compress/zlib"
	"crypto/sha1"
	"encoding/binary"
	"encoding/hex"
	"errors"
	"fmt"
	"io"
	"os"
	"path/filepath"
	"regexp"
	"sort"
	"strconv"
	"strings"
)

// ---------------------------------------------------------------- objects

type Object struct {
	ID   string // id recomputed from the content (not the file name)
	Kind string
	Data []byte
}

// HashObject returns the id Git assigns to (kind, data).
func HashObject(kind string, data []byte) string {
	h := sha1.New()
	fmt.Fprintf(h, "%s %d\x00", kind, len(data))
	h.Write(data)
	return hex.EncodeToString(h.Sum(nil))
}

// DecodeObjectBytes inflates raw file bytes and splits the header.
func DecodeObjectBytes(raw []byte) (*Object, error) {
	zr, err := zlib.NewReader(bytes.NewReader(raw))
	if err != nil {
		return nil, fmt.Errorf("zlib header: %w", err)
	}
	defer zr.Close()
	all, err := io.ReadAll(zr)
	if err != nil {
		return nil, fmt.Errorf("inflate: %w", err)
	}
	nul := bytes.IndexByte(all, 0)
	if nul < 0 {
		return nil, errors.New("no NUL after header")
	}
	hdr := string(all[:nul])
	sp := strings.IndexByte(hdr, ' ')
	if sp < 0 {
		return nil, fmt.Errorf("bad header %q", hdr)
	}
	kind := hdr[:sp]
	n, err := strconv.Atoi(hdr[sp+1:])
	if err != nil || n < 0 || strconv.Itoa(n) != hdr[sp+1:] {
		return nil, fmt.Errorf("bad length in header %q", hdr)
	}
	data := all[nul+1:]
	if len(data) != n {
		return nil, fmt.Errorf("length %d in header, %d bytes of data", n, len(data))
	}
	switch kind {
	case "blob", "tree", "commit":
	default:
		return nil, fmt.Errorf("unknown kind %q", kind)
	}
	return &Object{ID: HashObject(kind, data), Kind: kind, Data: data}, nil
}

// Store gives access to raw object files by id.
type Store interface {
	Raw(id string) ([]byte, error)
}

// DirStore reads objects/<2>/<38> beneath a .goit directory.
type DirStore string

func (d DirStore) Raw(id string) ([]byte, error) {
	return os.ReadFile(filepath.Join(string(d), "objects", id[:2], id[2:]))
}

// MapStore serves object files from a snapshot: key "objects/<2>/<38>".
type MapStore map[string]string

func (m MapStore) Raw(id string) ([]byte, error) {
	v, ok := m["objects/"+id[:2]+"/"+id[2:]]
	if !ok {
		return nil, fmt.Errorf("object %s: no such file", id)
	}
	return []byte(v), nil
}

// ReadObject reads an object file and checks that its name is the id of its content.
func ReadObject(st Store, id string) (*Object, error) {
	if !IsHex40(id) {
		return nil, fmt.Errorf("id %q is not 40 hex digits", id)
	}
	raw, err := st.Raw(id)
	if err != nil {
		return nil, err
	}
	o, err := DecodeObjectBytes(raw)
	if err != nil {
		return nil, fmt.Errorf("object %s: %w", id, err)
	}
	if o.ID != id {
		return nil, fmt.Errorf("object file %s holds content with id %s", id, o.ID)
	}
	return o, nil
}

// EncodeObject produces a valid object file (used to craft inputs).
func EncodeObject(kind string, data []byte) (id string, raw []byte) {
	var b bytes.Buffer
	w := zlib.NewWriter(&b)
	fmt.Fprintf(w, "%s %d\x00", kind, len(data))
	w.Write(data)
	w.Close()
	return HashObject(kind, data), b.Bytes()
}

// ListObjects returns the ids (file names) of all object files.
func ListObjects(goitDir string) ([]string, error) {
	var ids []string
	base := filepath.Join(goitDir, "objects")
	fans, err := os.ReadDir(base)
	if err != nil {
		if os.IsNotExist(err) {
			return nil, nil
		}
		return nil, err
	}
	for _, fan := range fans {
		if !fan.IsDir() {
			ids = append(ids, fan.Name())
			continue
		}
		fs, err := os.ReadDir(filepath.Join(base, fan.Name()))
		if err != nil {
			return nil, err
		}
		for _, f := range fs {
			ids = append(ids, fan.Name()+f.Name())
		}
	}
	sort.Strings(ids)
	return ids, nil
}

// ---------------------------------------------------------------- trees

type TreeEntry struct {
	Mode string
	Name string
	ID   string
}

func (e TreeEntry) IsDir() bool { return e.Mode == "040000" || e.Mode == "40000" }

// DecodeTree: "<mode> SP <name> NUL <20 bytes>" repeated; the name is
// everything between the first space and the NUL.
func DecodeTree(data []byte) ([]TreeEntry, error) {
	var out []TreeEntry
	for len(data) > 0 {
		nul := bytes.IndexByte(data, 0)
		if nul < 0 {
			return nil, errors.New("tree entry without NUL")
		}
		head := string(data[:nul])
		sp := strings.IndexByte(head, ' ')
		if sp < 0 {
			return nil, fmt.Errorf("tree entry without space: %q", head)
		}
		if len(data) < nul+21 {
			return nil, errors.New("tree entry with short id")
		}
		out = append(out, TreeEntry{Mode: head[:sp], Name: head[sp+1:], ID: hex.EncodeToString(data[nul+1 : nul+21])})
		data = data[nul+21:]
	}
	return out, nil
}

func EncodeTree(es []TreeEntry) []byte {
	var b bytes.Buffer
	for _, e := range es {
		id, _ := hex.DecodeString(e.ID)
		b.WriteString(e.Mode + " " + e.Name)
		b.WriteByte(0)
		b.Write(id)
	}
	return b.Bytes()
}

type PathID struct {
	Path string
	ID   string
}

// FlattenTree walks a tree recursively to (path, blob id) pairs, in tree order.
// It also verifies that every referenced object exists with the kind its mode says.
func FlattenTree(goitDir Store, treeID string) ([]PathID, error) {
	return flatten(goitDir, treeID, "", 0)
}

func flatten(goitDir Store, treeID, prefix string, depth int) ([]PathID, error) {
	if depth > 100000 {
		return nil, errors.New("tree nesting too deep")
	}
	o, err := ReadObject(goitDir, treeID)
	if err != nil {
		return nil, err
	}
	if o.Kind != "tree" {
		return nil, fmt.Errorf("object %s is a %s, expected tree", treeID, o.Kind)
	}
	es, err := DecodeTree(o.Data)
	if err != nil {
		return nil, fmt.Errorf("tree %s: %w", treeID, err)
	}
	var out []PathID
	for _, e := range es {
		p := e.Name
		if prefix != "" {
			p = prefix + "/" + e.Name
		}
		if e.IsDir() {
			sub, err := flatten(goitDir, e.ID, p, depth+1)
			if err != nil {
				return nil, err
			}
			out = append(out, sub...)
		} else {
			bo, err := ReadObject(goitDir, e.ID)
			if err != nil {
				return nil, fmt.Errorf("tree %s entry %q: %w", treeID, e.Name, err)
			}
			if bo.Kind != "blob" {
				return nil, fmt.Errorf("tree %s entry %q (mode %s) names a %s", treeID, e.Name, e.Mode, bo.Kind)
			}
			out = append(out, PathID{p, e.ID})
		}
	}
	return out, nil
}

// FlattenTreeLoose is FlattenTree without dereferencing blob ids (for crafted ids).
func FlattenTreeLoose(goitDir Store, treeID string) ([]PathID, error) {
	return flattenLoose(goitDir, treeID, "", 0)
}

func flattenLoose(goitDir Store, treeID, prefix string, depth int) ([]PathID, error) {
	if depth > 100000 {
		return nil, errors.New("tree nesting too deep")
	}
	o, err := ReadObject(goitDir, treeID)
	if err != nil {
		return nil, err
	}
	if o.Kind != "tree" {
		return nil, fmt.Errorf("object %s is a %s, expected tree", treeID, o.Kind)
	}
	es, err := DecodeTree(o.Data)
	if err != nil {
		return nil, err
	}
	var out []PathID
	for _, e := range es {
		p := e.Name
		if prefix != "" {
			p = prefix + "/" + e.Name
		}
		if e.IsDir() {
			sub, err := flattenLoose(goitDir, e.ID, p, depth+1)
			if err != nil {
				return nil, err
			}
			out = append(out, sub...)
		} else {
			out = append(out, PathID{p, e.ID})
		}
	}
	return out, nil
}

// ---------------------------------------------------------------- commits

type Sign struct {
	Name   string
	Email  string
	Secs   int64
	Offset string // "+HHMM" / "-HHMM"
	Raw    string
}

type Commit struct {
	ID        string
	Tree      string
	Parents   []string
	Author    Sign
	Committer Sign
	Message   string // text after the blank line, verbatim
	Headers   []string
}

var signRe = regexp.MustCompile(`^(.*) <([^<>]*)> (-?[0-9]+) ([+-][0-9]{4})$`)

func ParseSign(s string) (Sign, error) {
	m := signRe.FindStringSubmatch(s)
	if m == nil {
		return Sign{Raw: s}, fmt.Errorf("sign line %q does not have the form 'Name <email> <secs> +HHMM'", s)
	}
	secs, err := strconv.ParseInt(m[3], 10, 64)
	if err != nil {
		return Sign{Raw: s}, err
	}
	return Sign{Name: m[1], Email: m[2], Secs: secs, Offset: m[4], Raw: s}, nil
}

// OffsetSeconds converts "+HHMM" to seconds east of UTC.
func OffsetSeconds(off string) int {
	h, _ := strconv.Atoi(off[1:3])
	m, _ := strconv.Atoi(off[3:5])
	v := h*3600 + m*60
	if off[0] == '-' {
		v = -v
	}
	return v
}

func DecodeCommit(id string, data []byte) (*Commit, error) {
	c := &Commit{ID: id}
	idx := bytes.Index(data, []byte("\n\n"))
	var head string
	if idx < 0 {
		head = strings.TrimSuffix(string(data), "\n")
	} else {
		head = string(data[:idx])
		c.Message = string(data[idx+2:])
	}
	seenAuthor, seenCommitter := false, false
	for _, line := range strings.Split(head, "\n") {
		c.Headers = append(c.Headers, line)
		sp := strings.IndexByte(line, ' ')
		if sp < 0 {
			return nil, fmt.Errorf("commit header line without space: %q", line)
		}
		key, val := line[:sp], line[sp+1:]
		switch key {
		case "tree":
			c.Tree = val
		case "parent":
			c.Parents = append(c.Parents, val)
		case "author":
			s, err := ParseSign(val)
			if err != nil {
				return nil, err
			}
			c.Author, seenAuthor = s, true
		case "committer":
			s, err := ParseSign(val)
			if err != nil {
				return nil, err
			}
			c.Committer, seenCommitter = s, true
		default:
			return nil, fmt.Errorf("unknown commit header %q", key)
		}
	}
	if !IsHex40(c.Tree) {
		return nil, fmt.Errorf("commit tree id %q", c.Tree)
	}
	for _, p := range c.Parents {
		if !IsHex40(p) {
			return nil, fmt.Errorf("commit parent id %q", p)
		}
	}
	if !seenAuthor || !seenCommitter {
		return nil, errors.New("commit lacks author or committer")
	}
	return c, nil
}

func ReadCommit(goitDir Store, id string) (*Commit, error) {
	o, err := ReadObject(goitDir, id)
	if err != nil {
		return nil, err
	}
	if o.Kind != "commit" {
		return nil, fmt.Errorf("object %s is a %s, expected commit", id, o.Kind)
	}
	return DecodeCommit(id, o.Data)
}

func IsHex40(s string) bool {
	if len(s) != 40 {
		return false
	}
	for i := 0; i < 40; i++ {
		c := s[i]
		if !(c >= '0' && c <= '9' || c >= 'a' && c <= 'f') {
			return false
		}
	}
	return true
}

// ---------------------------------------------------------------- index

type IndexEntry struct {
	ID   string
	Path string
}

type Index struct {
	Version uint32
	Count   uint32
	Entries []IndexEntry
}

// DecodeIndex: "DIRC", uint32 version, uint32 count, then per entry
// 20-byte id, uint16 path length, path bytes; no trailing bytes.
func DecodeIndex(b []byte) (*Index, error) {
	if len(b) < 12 {
		return nil, fmt.Errorf("index shorter than its header (%d bytes)", len(b))
	}
	if string(b[:4]) != "DIRC" {
		return nil, fmt.Errorf("index signature %q", b[:4])
	}
	ix := &Index{Version: binary.BigEndian.Uint32(b[4:8]), Count: binary.BigEndian.Uint32(b[8:12])}
	rest := b[12:]
	for i := uint32(0); i < ix.Count; i++ {
		if len(rest) < 22 {
			return nil, fmt.Errorf("index entry %d truncated", i)
		}
		id := hex.EncodeToString(rest[:20])
		n := int(binary.BigEndian.Uint16(rest[20:22]))
		rest = rest[22:]
		if len(rest) < n {
			return nil, fmt.Errorf("index entry %d path truncated", i)
		}
		ix.Entries = append(ix.Entries, IndexEntry{ID: id, Path: string(rest[:n])})
		rest = rest[n:]
	}
	if len(rest) != 0 {
		return nil, fmt.Errorf("index has %d trailing bytes after %d entries", len(rest), ix.Count)
	}
	return ix, nil
}

func EncodeIndex(es []IndexEntry) []byte {
	var b bytes.Buffer
	b.WriteString("DIRC")
	binary.Write(&b, binary.BigEndian, uint32(1))
	binary.Write(&b, binary.BigEndian, uint32(len(es)))
	for _, e := range es {
		id, _ := hex.DecodeString(e.ID)
		b.Write(id)
		binary.Write(&b, binary.BigEndian, uint16(len(e.Path)))
		b.WriteString(e.Path)
	}
	return b.Bytes()
}

// ReadIndex: a missing index file is the empty staging area.
func ReadIndex(goitDir string) (*Index, error) {
	b, err := os.ReadFile(filepath.Join(goitDir, "index"))
	if err != nil {
		if os.IsNotExist(err) {
			return &Index{Version: 1}, nil
		}
		return nil, err
	}
	return DecodeIndex(b)
}

// Canonical reports why the entries are not strictly ascending by path bytes.
func (ix *Index) Canonical() error {
	for i := 1; i < len(ix.Entries); i++ {
		if !(ix.Entries[i-1].Path < ix.Entries[i].Path) {
			return fmt.Errorf("index entries %d and %d not strictly ascending: %q, %q", i-1, i, ix.Entries[i-1].Path, ix.Entries[i].Path)
		}
	}
	return nil
}

func (ix *Index) Map() map[string]string {
	m := make(map[string]string, len(ix.Entries))
	for _, e := range ix.Entries {
		m[e.Path] = e.ID
	}
	return m
}

// ---------------------------------------------------------------- refs

type Refs struct {
	HeadText   string            // raw content of HEAD
	HeadBranch string            // "" if HEAD is not "ref: refs/heads/<name>"
	Branches   map[string]string // relative name under refs/heads -> raw file content
	Odd        []string          // things under refs/heads that are not regular files
}

func ReadRefs(goitDir string) (*Refs, error) {
	r := &Refs{Branches: map[string]string{}}
	hb, err := os.ReadFile(filepath.Join(goitDir, "HEAD"))
	if err != nil {
		return nil, err
	}
	r.HeadText = string(hb)
	const pfx = "ref: refs/heads/"
	if strings.HasPrefix(r.HeadText, pfx) {
		r.HeadBranch = strings.TrimSuffix(r.HeadText[len(pfx):], "\n")
	}
	base := filepath.Join(goitDir, "refs", "heads")
	err = filepath.Walk(base, func(p string, info os.FileInfo, err error) error {
		if err != nil {
			if os.IsNotExist(err) {
				return nil
			}
			return err
		}
		if p == base {
			return nil
		}
		rel, _ := filepath.Rel(base, p)
		if info.Mode().IsRegular() {
			b, err := os.ReadFile(p)
			if err != nil {
				return err
			}
			r.Branches[rel] = string(b)
		} else {
			r.Odd = append(r.Odd, rel)
		}
		return nil
	})
	if err != nil {
		return nil, err
	}
	return r, nil
}

func (r *Refs) Names() []string {
	var ns []string
	for n := range r.Branches {
		ns = append(ns, n)
	}
	sort.Strings(ns)
	return ns
}

// ---------------------------------------------------------------- config

// ParseConfig reads the documented layout: "[section]" lines, then "\tkey = value".
type Config map[string]map[string]string

func ParseConfig(b []byte) (Config, error) {
	c := Config{}
	if len(b) == 0 {
		return c, nil
	}
	sec := ""
	lines := strings.Split(strings.TrimSuffix(string(b), "\n"), "\n")
	for _, ln := range lines {
		if strings.HasPrefix(ln, "[") && strings.HasSuffix(ln, "]") {
			sec = ln[1 : len(ln)-1]
			if _, ok := c[sec]; !ok {
				c[sec] = map[string]string{}
			}
			continue
		}
		if !strings.HasPrefix(ln, "\t") {
			return nil, fmt.Errorf("config line %q: neither section nor tab-indented key", ln)
		}
		i := strings.Index(ln, " = ")
		if i < 0 {
			return nil, fmt.Errorf("config line %q has no ' = '", ln)
		}
		if sec == "" {
			return nil, fmt.Errorf("config key before any section: %q", ln)
		}
		c[sec][ln[1:i]] = ln[i+3:]
	}
	return c, nil
}

// ReadRefsDir lists refs/heads beneath goitDir: name -> file content.
func ReadRefsDir(goitDir string) (map[string]string, error) {
	out := map[string]string{}
	base := filepath.Join(goitDir, "refs", "heads")
	err := filepath.Walk(base, func(p string, info os.FileInfo, err error) error {
		if err != nil {
			return err
		}
		if info.IsDir() {
			return nil
		}
		rel, _ := filepath.Rel(base, p)
		b, err := os.ReadFile(p)
		if err != nil {
			return err
		}
		out[filepath.ToSlash(rel)] = string(b)
		return nil
	})
	return out, err
}
