// Package stats collects what a check process actually generated: evaluations,
// distinct non-trivial cases (by 64-bit hash), label distribution, samples,
// draws excluded because of open findings. Flush writes it as JSON for the driver.
package stats

import (
	"encoding/json"
	"hash/fnv"
	"os"
	"sort"
	"sync"
)

type Data struct {
	Evaluations int            `json:"evaluations"`
	Nontrivial  []uint64       `json:"nontrivial_hashes"`
	Labels      map[string]int `json:"labels"`
	Excluded    map[string]int `json:"excluded_by_open_findings"`
	Rehits      map[string]int `json:"known_finding_rehits"`
	Samples     []interface{}  `json:"samples"`
	Notes       []string       `json:"notes"`
	Extra       map[string]int `json:"extra"`
	Exhaustive  map[string]int `json:"exhaustive_spaces"`
}

var (
	mu   sync.Mutex
	d    = Data{Labels: map[string]int{}, Excluded: map[string]int{}, Rehits: map[string]int{}, Extra: map[string]int{}, Exhaustive: map[string]int{}}
	seen = map[uint64]bool{}
	// MaxSamples bounds the number of samples kept per process.
	MaxSamples = 4
)

func Eval() { mu.Lock(); d.Evaluations++; mu.Unlock() }

func EvalN(n int) { mu.Lock(); d.Evaluations += n; mu.Unlock() }

func Label(name string) { mu.Lock(); d.Labels[name]++; mu.Unlock() }

func LabelIf(cond bool, name string) {
	if cond {
		Label(name)
	}
}

func Extra(name string, n int) { mu.Lock(); d.Extra[name] += n; mu.Unlock() }

func Exhaustive(name string, size int) { mu.Lock(); d.Exhaustive[name] = size; mu.Unlock() }

func Excluded(key string) { mu.Lock(); d.Excluded[key]++; mu.Unlock() }

func Rehit(key string) { mu.Lock(); d.Rehits[key]++; mu.Unlock() }

func Note(s string) {
	mu.Lock()
	defer mu.Unlock()
	for _, n := range d.Notes {
		if n == s {
			return
		}
	}
	d.Notes = append(d.Notes, s)
}

func Hash(s string) uint64 {
	h := fnv.New64a()
	h.Write([]byte(s))
	return h.Sum64()
}

// Nontrivial records a non-trivial case by its distinguishing key. It returns
// true when the key was not seen before in this process.
func Nontrivial(key string) bool {
	h := Hash(key)
	mu.Lock()
	defer mu.Unlock()
	if seen[h] {
		return false
	}
	seen[h] = true
	d.Nontrivial = append(d.Nontrivial, h)
	return true
}

// Sample keeps up to MaxSamples rendered cases.
func Sample(v interface{}) {
	mu.Lock()
	defer mu.Unlock()
	if len(d.Samples) < MaxSamples {
		d.Samples = append(d.Samples, v)
	}
}

func WantSample() bool { mu.Lock(); defer mu.Unlock(); return len(d.Samples) < MaxSamples }

// Flush writes the collected data to $VERIF_EVID_OUT (no-op when unset).
func Flush() {
	p := os.Getenv("VERIF_EVID_OUT")
	if p == "" {
		return
	}
	mu.Lock()
	defer mu.Unlock()
	sort.Slice(d.Nontrivial, func(i, j int) bool { return d.Nontrivial[i] < d.Nontrivial[j] })
	b, err := json.Marshal(&d)
	if err != nil {
		panic(err)
	}
	if err := os.WriteFile(p, b, 0o644); err != nil {
		panic(err)
	}
}
