// Package findings reads /verif/KNOWN_FINDINGS.txt (never written at run time)
// and stores replay files for failures.
//
//	known: property=<id> key=<key> <what fails>
//	fixed: property=<id> <commit> <what failed>
package findings

import (
	"bufio"
	"encoding/json"
	"fmt"
	"os"
	"strings"
	"sync"
)

type Known struct {
	Property string
	Key      string
	What     string
}

var (
	once  sync.Once
	known []Known
)

func file() string {
	if p := os.Getenv("VERIF_FINDINGS"); p != "" {
		return p
	}
	return "/verif/KNOWN_FINDINGS.txt"
}

func load() {
	f, err := os.Open(file())
	if err != nil {
		return
	}
	defer f.Close()
	sc := bufio.NewScanner(f)
	for sc.Scan() {
		ln := strings.TrimSpace(sc.Text())
		if !strings.HasPrefix(ln, "known:") {
			continue
		}
		fs := strings.Fields(strings.TrimPrefix(ln, "known:"))
		k := Known{}
		rest := []string{}
		for _, f := range fs {
			switch {
			case strings.HasPrefix(f, "property=") && k.Property == "":
				k.Property = strings.TrimPrefix(f, "property=")
			case strings.HasPrefix(f, "key=") && k.Key == "":
				k.Key = strings.TrimPrefix(f, "key=")
			default:
				rest = append(rest, f)
			}
		}
		k.What = strings.Join(rest, " ")
		if k.Key != "" {
			known = append(known, k)
		}
	}
}

// All returns the open findings.
func All() []Known { once.Do(load); return known }

// Open reports whether a finding key is listed as open (known:). Open findings
// are excluded from generation by construction; everything else is generated.
func Open(key string) bool {
	for _, k := range All() {
		if k.Key == key {
			return true
		}
	}
	return false
}

func ForProperty(id string) []Known {
	var out []Known
	for _, k := range All() {
		if k.Property == id {
			out = append(out, k)
		}
	}
	return out
}

// ---------------------------------------------------------------- replay files

// Replay is what a failing case is saved as: enough to re-run it without rapid.
type Replay struct {
	Property string          `json:"property"`
	Kind     string          `json:"kind"` // which executor understands Case
	Case     json.RawMessage `json:"case"`
	Error    string          `json:"error,omitempty"`
}

var bestSize = -1

// Save writes the failing case to $VERIF_REPLAY_OUT if it is smaller than the
// one saved before by this process (rapid calls it repeatedly while shrinking).
func Save(property, kind string, c interface{}, err error) {
	p := os.Getenv("VERIF_REPLAY_OUT")
	if p == "" {
		return
	}
	cb, e := json.Marshal(c)
	if e != nil {
		panic(e)
	}
	if bestSize >= 0 && len(cb) >= bestSize {
		return
	}
	bestSize = len(cb)
	r := Replay{Property: property, Kind: kind, Case: cb}
	if err != nil {
		r.Error = err.Error()
	}
	b, _ := json.MarshalIndent(&r, "", " ")
	if e := os.WriteFile(p, b, 0o644); e != nil {
		panic(e)
	}
}

func Load(path string) (*Replay, error) {
	b, err := os.ReadFile(path)
	if err != nil {
		return nil, err
	}
	var r Replay
	if err := json.Unmarshal(b, &r); err != nil {
		return nil, fmt.Errorf("%s: %w", path, err)
	}
	return &r, nil
}
