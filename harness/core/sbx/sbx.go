// Package sbx creates throw-away repositories, runs the goit binary built
// from /repo's working tree in them, and takes byte-level snapshots.
package sbx

import (
	"bytes"
	"context"
	"fmt"
	"os"
	"os/exec"
	"path/filepath"
	"sort"
	"strings"
	"syscall"
	"time"

	"github.com/JunNishimura/Goit/verifharness/core/tz"
)

type Box struct {
	Root  string // scratch root of this case
	Work  string // working tree (contains .goit)
	Home  string // HOME of the goit process (holds .goitconfig)
	Bin   string
	TZMin int      // UTC offset of the process in minutes
	Extra []string // extra environment
	NRuns int

	limitKiB int // address-space limit of the next runs (RunLimited)
}

// ScratchBase is where per-case directories are created.
func ScratchBase() string {
	if d := os.Getenv("VERIF_SCRATCH"); d != "" {
		return d
	}
	return os.TempDir()
}

func GoitBin() string {
	b := os.Getenv("VERIF_GOIT")
	if b == "" {
		panic("VERIF_GOIT is not set: run through /verif/check")
	}
	return b
}

func New() *Box {
	root, err := os.MkdirTemp(ScratchBase(), "case")
	if err != nil {
		panic(err)
	}
	b := &Box{Root: root, Work: filepath.Join(root, "w"), Home: filepath.Join(root, "home"), Bin: GoitBin()}
	for _, d := range []string{b.Work, b.Home} {
		if err := os.Mkdir(d, 0o755); err != nil {
			panic(err)
		}
	}
	return b
}

func (b *Box) Close() { os.RemoveAll(b.Root) }

func (b *Box) GoitDir() string { return filepath.Join(b.Work, ".goit") }

type Result struct {
	Args    []string
	Exit    int
	Stdout  string
	Stderr  string
	Panic   bool
	Timeout bool
	Signal  string
	Dur     time.Duration
}

func (r Result) String() string {
	return fmt.Sprintf("goit %q -> exit=%d timeout=%v panic=%v\n--stdout--\n%s--stderr--\n%s", r.Args, r.Exit, r.Timeout, r.Panic, clip(r.Stdout), clip(r.Stderr))
}

func clip(s string) string {
	if len(s) > 1500 {
		return s[:1500] + "…\n"
	}
	return s
}

func (r Result) OK() bool { return r.Exit == 0 && !r.Panic && !r.Timeout }

func (b *Box) env() []string {
	tzf, err := tz.File(b.Root, b.TZMin)
	if err != nil {
		panic(err)
	}
	e := []string{"HOME=" + b.Home, "TZ=" + tzf, "PATH=/usr/bin:/bin", "NO_COLOR=1", "LANG=C"}
	return append(e, b.Extra...)
}

// Run executes goit in the working tree.
func (b *Box) Run(args ...string) Result { return b.RunIn(b.Work, args...) }

func (b *Box) RunIn(dir string, args ...string) Result {
	r := b.run(dir, 20*time.Second, args)
	if r.Timeout {
		// believed only if a second, longer run also times out
		r2 := b.run(dir, 120*time.Second, args)
		if !r2.Timeout {
			return r2
		}
	}
	return r
}

// RunLimited is Run with a limit on the address space of the goit process (in KiB, as for
// ulimit -v): a command that allocates without bound dies with "out of memory", which is
// reported like a crash.
func (b *Box) RunLimited(kib int, args ...string) Result {
	b.limitKiB = kib
	defer func() { b.limitKiB = 0 }()
	return b.RunIn(b.Work, args...)
}

func (b *Box) run(dir string, limit time.Duration, args []string) Result {
	b.NRuns++
	ctx, cancel := context.WithTimeout(context.Background(), limit)
	defer cancel()
	cmd := exec.CommandContext(ctx, b.Bin, args...)
	if b.limitKiB > 0 {
		sh := fmt.Sprintf("ulimit -v %d; exec \"$0\" \"$@\"", b.limitKiB)
		cmd = exec.CommandContext(ctx, "/bin/sh", append([]string{"-c", sh, b.Bin}, args...)...)
	}
	cmd.Dir = dir
	cmd.Env = b.env()
	var so, se bytes.Buffer
	cmd.Stdout, cmd.Stderr = &so, &se
	t0 := time.Now()
	err := cmd.Run()
	res := Result{Args: args, Stdout: so.String(), Stderr: se.String(), Dur: time.Since(t0)}
	if ctx.Err() == context.DeadlineExceeded {
		res.Timeout = true
		res.Exit = -1
		return res
	}
	if err != nil {
		if ee, ok := err.(*exec.ExitError); ok {
			res.Exit = ee.ExitCode()
			if ws, ok := ee.Sys().(syscall.WaitStatus); ok && ws.Signaled() {
				res.Signal = ws.Signal().String()
			}
		} else {
			panic(fmt.Sprintf("cannot run %s: %v", b.Bin, err))
		}
	}
	all := res.Stderr + res.Stdout
	if strings.Contains(all, "panic:") || strings.Contains(all, "goroutine ") || strings.Contains(all, "fatal error:") || res.Exit == 2 {
		res.Panic = true
	}
	return res
}

// ---------------------------------------------------------------- snapshots

// Tree is a byte-level snapshot of a directory: files with content, directories.
type Tree struct {
	Files map[string]string // relative slash path -> content
	Dirs  map[string]bool
	Odd   map[string]string // non-regular entries
}

func snapDir(base string, skip func(rel string) bool) *Tree {
	t := &Tree{Files: map[string]string{}, Dirs: map[string]bool{}, Odd: map[string]string{}}
	filepath.Walk(base, func(p string, info os.FileInfo, err error) error {
		if err != nil {
			return nil
		}
		if p == base {
			return nil
		}
		rel, _ := filepath.Rel(base, p)
		rel = filepath.ToSlash(rel)
		if skip != nil && skip(rel) {
			if info.IsDir() {
				return filepath.SkipDir
			}
			return nil
		}
		switch {
		case info.IsDir():
			t.Dirs[rel] = true
		case info.Mode().IsRegular():
			b, err := os.ReadFile(p)
			if err != nil {
				t.Odd[rel] = "unreadable: " + err.Error()
			} else {
				t.Files[rel] = string(b)
			}
		default:
			t.Odd[rel] = info.Mode().String()
		}
		return nil
	})
	return t
}

// SnapWork snapshots the working tree without the root-level .goit directory.
func (b *Box) SnapWork() *Tree {
	return snapDir(b.Work, func(rel string) bool { return rel == ".goit" })
}

// SnapGoit snapshots .goit.
func (b *Box) SnapGoit() *Tree { return snapDir(b.GoitDir(), nil) }

// SnapHome snapshots HOME (global config).
func (b *Box) SnapHome() *Tree { return snapDir(b.Home, nil) }

func (t *Tree) Paths() []string {
	ps := make([]string, 0, len(t.Files))
	for p := range t.Files {
		ps = append(ps, p)
	}
	sort.Strings(ps)
	return ps
}

// Diff lists differences between two snapshots (empty = byte-identical).
// ignore may exclude relative paths from the comparison.
func Diff(a, b *Tree, ignore func(rel string) bool) []string {
	var out []string
	keys := map[string]bool{}
	for k := range a.Files {
		keys[k] = true
	}
	for k := range b.Files {
		keys[k] = true
	}
	for k := range a.Dirs {
		keys[k] = true
	}
	for k := range b.Dirs {
		keys[k] = true
	}
	ks := make([]string, 0, len(keys))
	for k := range keys {
		ks = append(ks, k)
	}
	sort.Strings(ks)
	for _, k := range ks {
		if ignore != nil && ignore(k) {
			continue
		}
		av, aok := a.Files[k]
		bv, bok := b.Files[k]
		switch {
		case aok && bok:
			if av != bv {
				out = append(out, fmt.Sprintf("changed: %s (%d -> %d bytes)", k, len(av), len(bv)))
			}
		case aok && !bok:
			if b.Dirs[k] {
				out = append(out, "file became directory: "+k)
			} else {
				out = append(out, "removed: "+k)
			}
		case !aok && bok:
			if a.Dirs[k] {
				out = append(out, "directory became file: "+k)
			} else {
				out = append(out, "added: "+k)
			}
		default:
			if a.Dirs[k] != b.Dirs[k] {
				if a.Dirs[k] {
					out = append(out, "directory removed: "+k)
				} else {
					out = append(out, "directory added: "+k)
				}
			}
		}
	}
	return out
}

// DiffFiles is Diff restricted to regular files (directories are not compared).
func DiffFiles(a, b *Tree, ignore func(rel string) bool) []string {
	var out []string
	for _, d := range Diff(a, b, ignore) {
		if strings.HasPrefix(d, "directory removed") || strings.HasPrefix(d, "directory added") {
			continue
		}
		out = append(out, d)
	}
	return out
}

// ---------------------------------------------------------------- working-tree edits

func (b *Box) abs(rel string) string { return filepath.Join(b.Work, filepath.FromSlash(rel)) }

func (b *Box) WriteFile(rel string, data []byte) error {
	p := b.abs(rel)
	if err := os.MkdirAll(filepath.Dir(p), 0o755); err != nil {
		return err
	}
	return os.WriteFile(p, data, 0o644)
}

func (b *Box) Remove(rel string) error    { return os.Remove(b.abs(rel)) }
func (b *Box) RemoveAll(rel string) error { return os.RemoveAll(b.abs(rel)) }

func (b *Box) Touch(rel string, when time.Time) error { return os.Chtimes(b.abs(rel), when, when) }

func (b *Box) Exists(rel string) bool {
	_, err := os.Lstat(b.abs(rel))
	return err == nil
}

func (b *Box) IsDir(rel string) bool {
	fi, err := os.Lstat(b.abs(rel))
	return err == nil && fi.IsDir()
}

// PruneEmptyDirs removes empty directories left behind in the working tree (outside .goit).
func (b *Box) PruneEmptyDirs() {
	for i := 0; i < 8; i++ {
		removed := false
		t := b.SnapWork()
		ds := make([]string, 0, len(t.Dirs))
		for d := range t.Dirs {
			ds = append(ds, d)
		}
		sort.Sort(sort.Reverse(sort.StringSlice(ds)))
		for _, d := range ds {
			if os.Remove(b.abs(d)) == nil {
				removed = true
			}
		}
		if !removed {
			return
		}
	}
}

// Clone copies the whole case directory (working tree, .goit, HOME) into a new Box.
func (b *Box) Clone() *Box {
	root, err := os.MkdirTemp(ScratchBase(), "case")
	if err != nil {
		panic(err)
	}
	nb := &Box{Root: root, Work: filepath.Join(root, "w"), Home: filepath.Join(root, "home"), Bin: b.Bin, TZMin: b.TZMin, Extra: b.Extra}
	err = filepath.Walk(b.Root, func(p string, info os.FileInfo, err error) error {
		if err != nil {
			return err
		}
		rel, _ := filepath.Rel(b.Root, p)
		dst := filepath.Join(root, rel)
		if info.IsDir() {
			return os.MkdirAll(dst, 0o755)
		}
		data, err := os.ReadFile(p)
		if err != nil {
			return err
		}
		return os.WriteFile(dst, data, info.Mode().Perm())
	})
	if err != nil {
		panic(err)
	}
	return nb
}

// WriteGoitFile writes a file inside .goit (used to craft inputs).
func (b *Box) WriteGoitFile(rel string, data []byte) error {
	p := filepath.Join(b.GoitDir(), filepath.FromSlash(rel))
	if err := os.MkdirAll(filepath.Dir(p), 0o755); err != nil {
		return err
	}
	return os.WriteFile(p, data, 0o644)
}
