package cli

import (
	"fmt"
	"sort"
	"strings"

	"github.com/JunNishimura/Goit/verifharness/core/gitfmt"
	"github.com/JunNishimura/Goit/verifharness/core/stats"
)

// C03 — connectivity: the repository never references something that is not there.

// Fsck is the independent consistency check over one observation.
func Fsck(o *Obs) error {
	if !o.HasGoit {
		return nil
	}
	// HEAD names a branch
	if o.HeadBr == "" || strings.ContainsAny(o.HeadBr, "/\n") {
		return fmt.Errorf("HEAD is %q, not 'ref: refs/heads/<branch>'", o.Head)
	}
	if _, ok := o.Branches[o.HeadBr]; !ok && len(o.Branches) > 0 {
		return fmt.Errorf("HEAD names branch %q, which does not exist (branches: %v)", o.HeadBr, o.BranchNames())
	}
	// refs/heads holds only regular files, each exactly the full id of an existing commit
	for d := range o.Goit.Dirs {
		if strings.HasPrefix(d, "refs/heads/") {
			return fmt.Errorf("refs/heads contains a directory: %s", d)
		}
	}
	for _, n := range o.BranchNames() {
		v := o.Branches[n]
		if !gitfmt.IsHex40(v) {
			return fmt.Errorf("branch %q holds %q, not a full id", n, v)
		}
	}
	// every stored object's file name is the SHA-1 of its decompressed content
	kinds := map[string]string{}
	ids := make([]string, 0, len(o.Objects))
	for id := range o.Objects {
		ids = append(ids, id)
	}
	sort.Strings(ids)
	for _, id := range ids {
		ob, err := gitfmt.ReadObject(o.Store, id)
		if err != nil {
			return fmt.Errorf("stored object is damaged: %v", err)
		}
		kinds[id] = ob.Kind
	}
	// commits: snapshot and parents exist with matching kinds
	var walk func(id string, seen map[string]bool) error
	walk = func(id string, seen map[string]bool) error {
		if seen[id] {
			return nil
		}
		seen[id] = true
		if kinds[id] != "commit" {
			return fmt.Errorf("%s is referenced as a commit but is %q", id, kinds[id])
		}
		cm, err := gitfmt.ReadCommit(o.Store, id)
		if err != nil {
			return err
		}
		if _, err := gitfmt.FlattenTree(o.Store, cm.Tree); err != nil {
			return fmt.Errorf("commit %s: snapshot not intact: %v", id, err)
		}
		for _, p := range cm.Parents {
			if err := walk(p, seen); err != nil {
				return fmt.Errorf("commit %s: parent: %w", id, err)
			}
		}
		return nil
	}
	seen := map[string]bool{}
	for _, n := range o.BranchNames() {
		if err := walk(o.Branches[n], seen); err != nil {
			return fmt.Errorf("branch %q: %w", n, err)
		}
	}
	// every staged path refers to an existing blob
	if o.Index == nil {
		return fmt.Errorf("staging area undecodable: %v", o.IndexErr)
	}
	for _, e := range o.Index.Entries {
		if kinds[e.ID] != "blob" {
			return fmt.Errorf("staged path %q refers to %s, which is %q (want an existing blob)", e.Path, e.ID, kinds[e.ID])
		}
	}
	return nil
}

func oracleFsck(c *Ctx) error {
	if c.Step.Op == "goit" && (c.Res.Panic || c.Res.Timeout) {
		// a crash is C18's finding; the state it leaves behind is still checked below
		stats.Label("fsck:after-crash")
	}
	if err := Fsck(c.Post); err != nil {
		return fmt.Errorf("repository not connected: %v", err)
	}
	// no command deletes a stored object (content changes are excluded by the name check above)
	for id := range c.Pre.Objects {
		if !c.Post.Objects[id] {
			return fmt.Errorf("object %s was deleted", id)
		}
	}
	// nothing appears in .goit outside the places Goit writes to
	for p := range c.Post.Goit.Files {
		if _, ok := c.Pre.Goit.Files[p]; ok {
			continue
		}
		okPlace := p == "index" || p == "config" || p == "HEAD" || strings.HasPrefix(p, "objects/") || strings.HasPrefix(p, "refs/heads/") || strings.HasPrefix(p, "logs/")
		if !okPlace {
			return fmt.Errorf("unexpected file %q appeared inside .goit", p)
		}
	}
	if c.Step.Op == "goit" {
		hostile := c.Step.Note == "hostile" || c.Step.Note == "invalid"
		stats.LabelIf(hostile, "fsck:hostile-or-refused-command")
		stats.LabelIf(c.Res.Exit != 0, "fsck:refused")
		k, _ := c.H.Data["hostile"].(int)
		if hostile {
			k++
			c.H.Data["hostile"] = k
		}
		if k > 0 && len(c.H.Order) > 0 {
			var sk []string
			for _, st := range c.H.Data["skeleton"].([]string) {
				sk = append(sk, st)
			}
			stats.Nontrivial(strings.Join(sk, " "))
		}
	}
	return nil
}

func trackSkeleton(c *Ctx) error {
	xs, _ := c.H.Data["skeleton"].([]string)
	if c.Step.Op == "goit" {
		s := c.Step.Args[0]
		if len(c.Step.Args) > 1 && strings.HasPrefix(c.Step.Args[1], "-") {
			s += c.Step.Args[1]
		}
		if c.Step.Note != "" {
			s += "!" + c.Step.Note
		}
		xs = append(xs, s)
	}
	c.H.Data["skeleton"] = xs
	return nil
}

var profHostile = register(&Profile{
	ID: "C03", Name: "hostile",
	Oracles: []Oracle{{Name: "skeleton", After: trackSkeleton}, {Name: "fsck", After: oracleFsck}},
})

var hostileBranchNames = []string{"\nfoo", "a\nb", "x\x01", "\r", "tab\tname", "a/b", "../x", "..", ".", "../../HEAD", "../../index", "..\\x", "a\\b", "refs/heads/x", "/abs", "../../objects", "a/../b", "x/", "../main", "./main"}

func (g *G) anyObjectID(kind string) string {
	var ids []string
	for id := range g.E.Cur.Objects {
		if o, err := gitfmt.ReadObject(g.E.Cur.Store, id); err == nil && o.Kind == kind {
			ids = append(ids, id)
		}
	}
	if len(ids) == 0 {
		return ""
	}
	sort.Strings(ids)
	// ids depend on the clock for commits: choose by position, not by value
	return ids[g.Int(0, len(ids)-1, "objIdx")]
}

func init() {
	ops = append(ops,
		opGen{"update-ref-hostile", hasCommit, func(g *G) Step {
			b := g.Pick(g.E.Cur.BranchNames(), "branch")
			ref := "refs/heads/" + b
			var id string
			switch g.Int(0, 8, "idClass") {
			case 0:
				id = g.anyObjectID("blob")
			case 1:
				id = g.anyObjectID("tree")
			case 2:
				id = gitfmt.HashObject("blob", []byte("no such object"))
			case 3:
				id = fmt.Sprintf("@commit#%d!trunc", g.Int(0, 5, "c"))
			case 4:
				id = fmt.Sprintf("@commit#%d!plus", g.Int(0, 5, "c"))
			case 5:
				id = strings.Repeat("z", 40)
			case 6:
				id = strings.Repeat("0", 40)
			case 7:
				id = fmt.Sprintf("@commit#%d!upper", g.Int(0, 5, "c"))
			default:
				id = fmt.Sprintf("@commit#%d", g.Int(0, 5, "c"))
				ref = g.Pick([]string{"refs/heads/nosuch", "refs/heads/", "refs/heads/../../HEAD", "heads/" + b, "refs/heads/a/b", "xrefs/heads/" + b}, "badref")
			}
			if id == "" {
				id = strings.Repeat("a", 40)
			}
			return Step{Op: "goit", Args: []string{"update-ref", ref, id}, Note: "hostile"}
		}},
		opGen{"branch-hostile", hasCommit, func(g *G) Step {
			n := g.Pick(hostileBranchNames, "hostileName")
			if g.Chance(50, "traversal") {
				// a relative path that, counted from refs/heads (2 levels) or logs/refs/heads (3 levels), names an
				// existing file of the repository: HEAD, the index, a stored object, another branch, a log
				k := g.Int(0, 4, "k")
				tgt := g.Pick([]string{"HEAD", "index", "config", fmt.Sprintf("objects/{{commitpath#%d}}", k), fmt.Sprintf("objects/{{treepath#%d}}", k),
					"refs/heads/" + g.Pick(g.E.Cur.BranchNames(), "b"), "logs/HEAD", "logs/refs/heads/" + g.Pick(g.E.Cur.BranchNames(), "b2"), "objects", "refs"}, "target")
				n = strings.Repeat("../", g.Int(1, 4, "ups")) + tgt
			}
			switch g.Int(0, 3, "form") {
			case 0:
				return Step{Op: "goit", Args: []string{"branch", n}, Note: "hostile"}
			case 1:
				return Step{Op: "goit", Args: []string{"switch", "-c", n}, Note: "hostile"}
			case 2:
				return Step{Op: "goit", Args: []string{"branch", "-r", n}, Note: "hostile"}
			default:
				return Step{Op: "goit", Args: []string{"branch", "-d", n}, Note: "hostile"}
			}
		}},
		opGen{"switch-hostile", hasCommit, func(g *G) Step {
			return Step{Op: "goit", Args: []string{"switch", g.Pick(hostileBranchNames, "hostileName")}, Note: "hostile"}
		}},
	)
}

var hostileWeights = Weights{"dir-at-unstaged-file": 3, "file-at-unstaged-dir": 3, "write-new": 10, "modify": 8, "remove-file": 3, "add": 14, "add-invalid": 2, "rm": 4, "rm-invalid": 2, "commit": 14,
	"reset": 8, "reset-invalid": 4, "restore": 2, "restore-staged": 2, "restore-invalid": 2,
	"branch": 4, "branch-d": 3, "branch-r": 5, "switch": 4, "switch-c": 3, "update-ref": 3,
	"dir2file": 3, "file2dir": 3, "update-ref-hostile": 10, "branch-hostile": 8, "switch-hostile": 2}
