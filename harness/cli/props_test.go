package cli

import (
	"fmt"
	"os"
	"testing"
)

func TestC02(t *testing.T) {
	runProfile(t, profCommit, runOpts{weights: commitWeights, fullContent: true, hostileMsgs: true, seedFiles: 2})
}

func TestC07(t *testing.T) {
	runProfile(t, profDiff, runOpts{weights: diffWeights, seedFiles: 2})
}

func TestC13(t *testing.T) {
	runProfile(t, profWorktree, runOpts{weights: worktreeWeights, seedFiles: 3, pre: func(g *G) []Step {
		// the property is stated for repositories with at least one commit
		var st []Step
		if g.Bool("withIgnore") {
			st = append(st, Step{Op: "write", Path: ".goitignore", Data: g.IgnoreFile()})
		}
		p := "first.txt"
		return append(st, Step{Op: "write", Path: p, Data: g.SmallContent()}, goit("add", p), goit("commit", "-m", "first"))
	}})
}

func TestC08(t *testing.T) {
	runProfile(t, profReset, runOpts{weights: resetWeights, seedFiles: 2})
}

func TestC09(t *testing.T) {
	runProfile(t, profRestore, runOpts{weights: restoreWeights, seedFiles: 3})
}

func TestC11(t *testing.T) {
	runProfile(t, profJournal, runOpts{weights: journalWeights, hostileMsgs: true, seedFiles: 2})
}

func TestC14(t *testing.T) {
	maxLen := 16
	if os.Getenv("VERIF_TIER") == "thorough" {
		maxLen = 50
	}
	runProfile(t, profLog, runOpts{weights: logWeights, hostileMsgs: true, seedFiles: 1, pre: func(g *G) []Step {
		// a linear history of drawn length, then the machine adds resets, branches and more commits
		l := 1
		if g.Chance(60, "longHistory") {
			l = g.Int(2, maxLen, "historyLen")
		}
		var st []Step
		for i := 0; i < l; i++ {
			st = append(st, Step{Op: "write", Path: "h.txt", Data: []byte(fmt.Sprintf("v%d\n", i))}, goit("add", "h.txt"), goit("commit", "-m", g.Message(true)))
		}
		return st
	}})
}
