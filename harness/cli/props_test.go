package cli

import (
	"fmt"
	"os"
	"testing"

	"github.com/JunNishimura/Goit/verifharness/core/stats"
	"pgregory.net/rapid"
)

func TestC02(t *testing.T) {
	runProfile(t, profCommit, runOpts{weights: commitWeights, fullContent: true, hostileMsgs: true, seedFiles: 2})
}

func TestC07(t *testing.T) {
	runProfile(t, profDiff, runOpts{weights: diffWeights, seedFiles: 2})
}

func TestC13(t *testing.T) {
	runProfile(t, profWorktree, runOpts{weights: worktreeWeights, seedFiles: 3, pre: func(g *G) []Step {
		// the property is stated for repositories with at least one commit
		var st []Step
		if g.Bool("withIgnore") {
			st = append(st, Step{Op: "write", Path: ".goitignore", Data: g.IgnoreFile()})
		}
		p := "first.txt"
		return append(st, Step{Op: "write", Path: p, Data: g.SmallContent()}, goit("add", p), goit("commit", "-m", "first"))
	}})
}

func TestC08(t *testing.T) {
	runProfile(t, profReset, runOpts{weights: resetWeights, seedFiles: 2})
}

func TestC09(t *testing.T) {
	runProfile(t, profRestore, runOpts{weights: restoreWeights, seedFiles: 3, decorate: true})
}

func TestC11(t *testing.T) {
	runProfile(t, profJournal, runOpts{weights: journalWeights, hostileMsgs: true, seedFiles: 2})
}

func TestC14(t *testing.T) {
	maxLen := 16
	if os.Getenv("VERIF_TIER") == "thorough" {
		maxLen = 50
	}
	runProfile(t, profLog, runOpts{weights: logWeights, hostileMsgs: true, seedFiles: 1, pre: func(g *G) []Step {
		// a linear history of drawn length, then the machine adds resets, branches and more commits
		l := 1
		if g.Chance(60, "longHistory") {
			l = g.Int(2, maxLen, "historyLen")
		}
		var st []Step
		for i := 0; i < l; i++ {
			st = append(st, Step{Op: "write", Path: "h.txt", Data: []byte(fmt.Sprintf("v%d\n", i))}, goit("add", "h.txt"), goit("commit", "-m", g.Message(true)))
		}
		return st
	}})
}

func TestC03(t *testing.T) {
	runProfile(t, profHostile, runOpts{weights: hostileWeights, seedFiles: 2})
}

func TestC17(t *testing.T) {
	runProfile(t, profIgnore, runOpts{weights: ignoreWeights, seedFiles: 2, decorate: true, pre: func(g *G) []Step {
		if g.Chance(65, "withIgnore") {
			return []Step{{Op: "write", Path: ".goitignore", Data: g.IgnoreFile()}}
		}
		return nil
	}})
}

// TestC18 runs command lines from a grammar over all sub-commands against states
// reached by random prefixes; a share of the cases starts without identity or
// without `init` so that fresh and unconfigured repositories are common.
func TestC18(t *testing.T) {
	rapid.Check(t, func(rt *rapid.T) {
		e := NewExec(profRobust)
		defer e.Close()
		e.hostileMsgs = true
		g := &G{T: rt, E: e}
		stats.Eval()
		do := func(st Step) {
			if err := e.Do(st); err != nil {
				if _, ok := err.(*Violation); ok {
					rt.Fatalf("%s", fail(profRobust, e.Sc, err))
				}
				panic(err)
			}
		}
		switch g.Int(0, 9, "startState") {
		case 0: // not even initialised
		case 1, 2: // fresh, no identity
			do(goit("init"))
		default:
			for _, st := range prelude(g) {
				do(st)
			}
		}
		if g.Chance(25, "withIgnore") {
			do(Step{Op: "write", Path: ".goitignore", Data: g.IgnoreFile()})
		}
		// a drawn amount of history, so that mid-life states (several commits, branches, a renamed
		// branch, an emptied snapshot) are as common as fresh ones
		if e.Cur.HasGoit && e.Cur.Goit.Files["config"] != "" || e.Cur.Home.Files[".goitconfig"] != "" {
			n := g.Int(0, 4, "historyCommits")
			for i := 0; i < n; i++ {
				p := g.NewPath()
				do(Step{Op: "write", Path: p, Data: g.SmallContent()})
				do(goit("add", p))
				do(goit("commit", "-m", g.Message(true)))
				switch g.Int(0, 9, "between") {
				case 0:
					do(nextStep(g, Weights{"switch-c": 1, "switch-c-meta": 1}))
				case 1:
					do(nextStep(g, Weights{"branch-r": 1}))
				case 2:
					do(nextStep(g, Weights{"branch": 1}))
				case 3:
					if i > 0 {
						do(goit("reset", "--soft", "HEAD@{1}"))
					}
				case 4:
					if len(e.Cur.IdxMap) > 0 {
						do(nextStep(g, Weights{"rm-all": 1}))
						do(goit("commit", "-m", "emptied"))
					}
				}
			}
		}
		rt.Repeat(map[string]func(*rapid.T){
			"step": func(rt *rapid.T) {
				g := &G{T: rt, E: e}
				do(nextStep(g, robustWeights))
			},
		})
		sampleScenario(e.Sc)
	})
}

// TestC20 starts from `init` only: which of (local, global) x (name, e-mail) is set is up to the generated sequence.
func TestC20(t *testing.T) {
	rapid.Check(t, func(rt *rapid.T) {
		e := NewExec(profConfig)
		defer e.Close()
		g := &G{T: rt, E: e}
		stats.Eval()
		do := func(st Step) {
			if err := e.Do(st); err != nil {
				if _, ok := err.(*Violation); ok {
					rt.Fatalf("%s", fail(profConfig, e.Sc, err))
				}
				panic(err)
			}
		}
		do(goit("init"))
		do(Step{Op: "write", Path: "c.txt", Data: []byte("0\n")})
		do(goit("add", "c.txt"))
		// a drawn subset of the four identity settings, so that all 16 combinations occur
		for i, k := range []string{"user.name", "user.email"} {
			for j, scope := range []string{"local", "global"} {
				if g.Bool(fmt.Sprintf("set-%s-%s", scope, k)) {
					val := []string{g.UserName(), g.Email()}[i]
					args := []string{"config"}
					if j == 1 {
						args = append(args, "--global")
					}
					do(goit(append(args, k, val)...))
				}
			}
		}
		rt.Repeat(map[string]func(*rapid.T){
			"step": func(rt *rapid.T) {
				g := &G{T: rt, E: e}
				do(nextStep(g, configWeights))
			},
		})
		sampleScenario(e.Sc)
	})
}

func TestC05Histories(t *testing.T) {
	runProfile(t, profReadback, runOpts{weights: readbackWeights, seedFiles: 3})
}

func TestC06CLI(t *testing.T) {
	runProfile(t, profIndex, runOpts{weights: indexWeights, seedFiles: 3, decorate: true})
}
