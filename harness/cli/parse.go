package cli

import (
	"fmt"
	"regexp"
	"strconv"
	"strings"
	"time"
)

// ---------------------------------------------------------------- status

type StatusReport struct {
	Branch    string
	Staged    map[string]string // path -> "new file" | "modified" | "deleted"
	Unstaged  map[string]string // path -> "modified" | "deleted"
	Untracked map[string]bool
	Dups      []string
}

const (
	hdrStaged    = "Changes to be committed:"
	hdrUnstaged  = "Changes not staged for commit:"
	hdrUntracked = "Untracked files:"
)

// ParseStatus reads `goit status` output. Entry lines are "\t<label padded to 13><path>"
// in the first two sections and "\t<path>" in the untracked section.
func ParseStatus(out string) (*StatusReport, error) {
	r := &StatusReport{Staged: map[string]string{}, Unstaged: map[string]string{}, Untracked: map[string]bool{}}
	sec := ""
	for i, ln := range strings.Split(out, "\n") {
		switch {
		case i == 0:
			if !strings.HasPrefix(ln, "On branch ") {
				return nil, fmt.Errorf("status: first line %q", ln)
			}
			r.Branch = strings.TrimPrefix(ln, "On branch ")
		case ln == hdrStaged:
			sec = "staged"
		case ln == hdrUnstaged:
			sec = "unstaged"
		case ln == hdrUntracked:
			sec = "untracked"
		case strings.HasPrefix(ln, "\t"):
			body := ln[1:]
			switch sec {
			case "staged", "unstaged":
				if len(body) < 13 {
					return nil, fmt.Errorf("status: short entry line %q", ln)
				}
				label := strings.TrimSuffix(strings.TrimRight(body[:13], " "), ":")
				path := body[13:]
				switch label {
				case "new file", "modified", "deleted":
				default:
					return nil, fmt.Errorf("status: unknown label in %q", ln)
				}
				m := r.Staged
				if sec == "unstaged" {
					m = r.Unstaged
				}
				if _, dup := m[path]; dup {
					r.Dups = append(r.Dups, path)
				}
				m[path] = label
			case "untracked":
				if r.Untracked[body] {
					r.Dups = append(r.Dups, body)
				}
				r.Untracked[body] = true
			default:
				return nil, fmt.Errorf("status: entry line outside a section: %q", ln)
			}
		}
	}
	return r, nil
}

// ---------------------------------------------------------------- reflog

type ReflogEntry struct {
	ID   string // 7 hex digits
	Deco string
	N    int
	Kind string
	Text string
}

var reflogRe = regexp.MustCompile(`^([0-9a-f]{7}) (?:\((.*?)\) )?HEAD@\{(\d+)\}: ([a-z]+): (.*)$`)

func ParseReflog(out string) ([]ReflogEntry, error) {
	var es []ReflogEntry
	if out == "" {
		return es, nil
	}
	for _, ln := range strings.Split(strings.TrimSuffix(out, "\n"), "\n") {
		m := reflogRe.FindStringSubmatch(ln)
		if m == nil {
			return nil, fmt.Errorf("reflog: unparsable line %q", ln)
		}
		n, _ := strconv.Atoi(m[3])
		es = append(es, ReflogEntry{ID: m[1], Deco: m[2], N: n, Kind: m[4], Text: m[5]})
	}
	for i, e := range es {
		if e.N != i {
			return nil, fmt.Errorf("reflog: line %d is numbered HEAD@{%d}", i, e.N)
		}
	}
	return es, nil
}

// ---------------------------------------------------------------- log

type LogBlock struct {
	ID      string
	Author  string // "Name <email>"
	Date    string
	Message string
}

var logCommitRe = regexp.MustCompile(`^commit ([0-9a-f]{40})$`)

// ParseLog splits `goit log` output into blocks that start with "commit <40 hex>".
func ParseLog(out string) ([]LogBlock, error) {
	var bs []LogBlock
	lines := strings.Split(out, "\n")
	i := 0
	for i < len(lines) {
		if lines[i] == "" {
			i++
			continue
		}
		m := logCommitRe.FindStringSubmatch(lines[i])
		if m == nil {
			return nil, fmt.Errorf("log: expected 'commit <id>', got %q", lines[i])
		}
		b := LogBlock{ID: m[1]}
		if i+3 >= len(lines) || !strings.HasPrefix(lines[i+1], "Author: ") || !strings.HasPrefix(lines[i+2], "Date: ") || lines[i+3] != "" {
			return nil, fmt.Errorf("log: malformed block for %s", b.ID)
		}
		b.Author = strings.TrimPrefix(lines[i+1], "Author: ")
		b.Date = strings.TrimPrefix(lines[i+2], "Date: ")
		i += 4
		var msg []string
		for i < len(lines) && !logCommitRe.MatchString(lines[i]) {
			msg = append(msg, lines[i])
			i++
		}
		b.Message = strings.TrimRight(strings.TrimPrefix(strings.Join(msg, "\n"), "\t"), "\n")
		bs = append(bs, b)
	}
	return bs, nil
}

// ---------------------------------------------------------------- ls-files -s, branch --list

func ParseLsFilesS(out string) (map[string]string, []string, error) {
	m := map[string]string{}
	var order []string
	if out == "" {
		return m, order, nil
	}
	for _, ln := range strings.Split(strings.TrimSuffix(out, "\n"), "\n") {
		if len(ln) < 45 || ln[40:44] != "    " {
			return nil, nil, fmt.Errorf("ls-files -s: malformed line %q", ln)
		}
		p := ln[44:]
		if _, dup := m[p]; dup {
			return nil, nil, fmt.Errorf("ls-files -s: path %q listed twice", p)
		}
		m[p] = ln[:40]
		order = append(order, p)
	}
	return m, order, nil
}

// ParseBranchList returns the names in order and the one marked with "* ".
func ParseBranchList(out string) (names []string, current string) {
	if out == "" {
		return nil, ""
	}
	for _, ln := range strings.Split(strings.TrimSuffix(out, "\n"), "\n") {
		if strings.HasPrefix(ln, "* ") {
			current = ln[2:]
			names = append(names, ln[2:])
		} else {
			names = append(names, ln)
		}
	}
	return
}

// parseLogDate converts "2006-01-02", "15:04:05", "-0700" to a Unix instant.
func parseLogDate(d, t, z string) (int64, error) {
	tm, err := time.Parse("2006-01-02 15:04:05 -0700", d+" "+t+" "+z)
	if err != nil {
		return 0, err
	}
	return tm.Unix(), nil
}
