package cli

import (
	"fmt"
	"strings"

	"github.com/JunNishimura/Goit/verifharness/core/gitfmt"
	"github.com/JunNishimura/Goit/verifharness/core/stats"
)

// C18 — no command crashes or hangs on any state Goit can produce; a command
// refused for invalid arguments leaves the repository unchanged.

func oracleRobust(c *Ctx) error {
	if c.Step.Op != "goit" {
		return nil
	}
	if c.Res.Timeout {
		return fmt.Errorf("%s did not end within the (confirmed) time limit", c.Step)
	}
	if c.Res.Panic || (c.Res.Exit != 0 && c.Res.Exit != 1) {
		return fmt.Errorf("%s ended with exit status %d / a runtime panic: %s", c.Step, c.Res.Exit, c.Res)
	}
	if c.Step.Note == "invalid" {
		if c.Res.Exit != 1 {
			return fmt.Errorf("%s is invalid by construction but was not refused (exit %d): %s", c.Step, c.Res.Exit, c.Res)
		}
		if err := unchangedAll(c, "command was refused for invalid arguments"); err != nil {
			return fmt.Errorf("%s: %v", c.Step, err)
		}
	}
	state := stateClass(c.Pre)
	stats.Label("state:" + state)
	stats.Label("cmd:" + c.Step.Args[0])
	stats.LabelIf(c.Step.Note == "invalid", "invalid-by-construction")
	if state != "clean-one-commit" || c.Step.Note == "invalid" {
		stats.Nontrivial(shapeOf(c.Step) + "#" + state)
	}
	return nil
}

// shapeOf abstracts a command line to sub-command, flags and argument classes.
func shapeOf(st Step) string {
	var parts []string
	for i, a := range st.Args {
		switch {
		case i == 0 || strings.HasPrefix(a, "-"):
			parts = append(parts, a)
		case gitfmt.IsHex40(a):
			parts = append(parts, "<id40>")
		case strings.ContainsAny(a, "([*+?\\"):
			parts = append(parts, "<meta>")
		case strings.Contains(a, "HEAD@"):
			parts = append(parts, "<headpos>")
		case strings.Contains(a, "/"):
			parts = append(parts, "<path/>")
		default:
			parts = append(parts, "<word>")
		}
	}
	return strings.Join(parts, " ") + "!" + st.Note
}

func stateClass(o *Obs) string {
	switch {
	case !o.HasGoit:
		return "no-repository"
	case o.HeadCommit() == "" && len(o.IdxMap) == 0:
		return "fresh"
	case o.HeadCommit() == "":
		return "staged-no-commit"
	}
	hs, err := o.HeadSnapshot()
	if err == nil && len(hs) == 0 {
		return "empty-snapshot"
	}
	if len(o.IdxMap) == 0 {
		return "emptied-staging-area"
	}
	if o.HeadBr != "main" {
		return "head-not-main"
	}
	if len(o.Branches) > 1 {
		return "several-branches"
	}
	if len(o.Order()) == 1 {
		return "clean-one-commit"
	}
	return "mid-life"
}

// Order returns the commit ids among the stored objects (for state classification).
func (o *Obs) Order() []string {
	var out []string
	for id := range o.Objects {
		if ob, err := gitfmt.ReadObject(o.Store, id); err == nil && ob.Kind == "commit" {
			out = append(out, id)
		}
	}
	return out
}

var profRobust = register(&Profile{
	ID: "C18", Name: "robust",
	Oracles: []Oracle{{Name: "robust", After: oracleRobust}},
})

var metaNames = []string{"a: b", "x y", "ref: z", "a:b", " lead", "trail ", "a(", "a[", "a*", "a+", "a?", "a\\", "a.", "(", "[", "*", "+x", "?", "a(b", "x[0-9]", "a{2}", "^a", "a$", "a|b", "d/a(", "a(/x", "é(", "a b(", "**", "[a-", "\\"}

func (g *G) someID() string {
	switch g.Int(0, 8, "idShape") {
	case 0:
		return ""
	case 1:
		return "abc1234"
	case 2:
		return strings.Repeat("a", 39)
	case 3:
		return strings.Repeat("a", 41)
	case 4:
		return strings.Repeat("g", 40)
	case 5:
		return strings.Repeat("0", 40)
	case 6:
		return gitfmt.HashObject("blob", []byte("absent"))
	default:
		// a commit (named symbolically: its id depends on the clock) or a content-addressed blob / tree
		if len(g.E.H.Order) > 0 && g.Bool("commitId") {
			return fmt.Sprintf("@commit#%d", g.Int(0, len(g.E.H.Order)-1, "commitIdx"))
		}
		var ids []string
		for id := range g.E.Cur.Objects {
			if o, err := gitfmt.ReadObject(g.E.Cur.Store, id); err == nil && o.Kind != "commit" {
				ids = append(ids, id)
			}
		}
		if len(ids) == 0 {
			return strings.Repeat("b", 40)
		}
		ids = sortedCopy(ids)
		return ids[g.Int(0, len(ids)-1, "idIdx")]
	}
}

func (g *G) somePath() string {
	switch g.Int(0, 5, "pathShape") {
	case 0:
		return g.Pick(metaNames, "meta")
	case 1:
		if fs := g.WorkFiles(); len(fs) > 0 {
			return g.Pick(fs, "file")
		}
	case 2:
		if ds := g.WorkDirs(); len(ds) > 0 {
			return g.Pick(ds, "dir")
		}
	case 3:
		if ts := g.E.Cur.Tracked(); len(ts) > 0 {
			return g.Pick(ts, "tracked")
		}
	case 4:
		return g.Pick([]string{".", "./", "nosuch", "no/such/path", ".goit", ".goit/HEAD", "a//b", "a/./b", "nosuch/../x"}, "odd")
	}
	return g.NewPath()
}

func (g *G) someBranch() string {
	switch g.Int(0, 3, "brShape") {
	case 0:
		return g.Pick(metaNames, "meta")
	case 1:
		if bs := g.E.Cur.BranchNames(); len(bs) > 0 {
			return g.Pick(bs, "existing")
		}
	case 2:
		return g.Pick(hostileBranchNames, "hostile")
	}
	return g.BranchName()
}

// genCommandLine draws from a grammar over all sub-commands x flags x argument lists.
func genCommandLine(g *G) Step {
	inv := func(args ...string) Step { return Step{Op: "goit", Args: args, Note: "invalid"} }
	many := func(f func() string, lo, hi int) []string {
		var out []string
		for i, n := 0, g.Int(lo, hi, "n"); i < n; i++ {
			out = append(out, f())
		}
		return out
	}
	noDash := func(s string) string {
		if strings.HasPrefix(s, "-") {
			return "x" + s
		}
		return s
	}
	path := func() string { return noDash(g.somePath()) }
	switch g.Int(0, 21, "sub") {
	case 0:
		if g.E.Cur.HasGoit {
			return inv(append([]string{"init"}, many(path, 0, 1)...)...)
		}
		return goit("init")
	case 1:
		if g.Chance(10, "noargs") {
			return inv("add")
		}
		if fs := g.WorkFiles(); len(fs) > 0 && g.Chance(15, "validThenUnknown") {
			return inv("add", noDash(g.Pick(fs, "file")), "no-such-path-"+fmt.Sprint(g.Int(0, 9, "n")))
		}
		return goit(append([]string{"add"}, many(path, 1, 3)...)...)
	case 2:
		args := []string{"commit"}
		if g.Chance(85, "m") {
			args = append(args, "-m", g.Message(true))
		}
		return goit(append(args, many(path, 0, 1)...)...)
	case 3:
		if ts := g.E.Cur.Tracked(); len(ts) > 0 && g.Chance(20, "validThenUnknown") {
			first := g.Pick(append(ts, trackedDirs(ts)...), "tracked")
			return inv("rm", noDash(first), "no-such-path-"+fmt.Sprint(g.Int(0, 9, "n")))
		}
		args := []string{"rm"}
		if g.Chance(20, "r") {
			args = append(args, "-r")
		}
		return goit(append(args, many(path, 0, 2)...)...)
	case 4:
		switch g.Int(0, 7, "form") {
		case 0:
			return goit("branch", "--list")
		case 1:
			return inv("branch")
		case 2:
			return inv("branch", "--list", noDash(g.someBranch()))
		case 3:
			return inv("branch", "-d", noDash(g.someBranch()), "-r", noDash(g.someBranch()))
		case 4:
			return goit("branch", "-d", noDash(g.someBranch()))
		case 5:
			return goit("branch", "-r", noDash(g.someBranch()))
		case 6:
			return inv("branch", noDash(g.someBranch()), noDash(g.someBranch()))
		default:
			return goit("branch", noDash(g.someBranch()))
		}
	case 5:
		switch g.Int(0, 4, "form") {
		case 0:
			return inv("switch")
		case 1:
			return inv("switch", noDash(g.someBranch()), noDash(g.someBranch()))
		case 2:
			return inv("switch", "-c", noDash(g.someBranch()), noDash(g.someBranch()))
		case 3:
			return goit("switch", "-c", noDash(g.someBranch()))
		default:
			return goit("switch", noDash(g.someBranch()))
		}
	case 6:
		args := []string{"restore"}
		if g.Bool("staged") {
			args = append(args, "--staged")
		}
		if g.Chance(10, "noargs") {
			return inv(args...)
		}
		if ts := g.E.Cur.Tracked(); len(ts) > 0 && g.E.Cur.HeadCommit() != "" && g.Chance(20, "validThenUnknown") {
			return inv(append(args, noDash(g.Pick(ts, "tracked")), "no-such-path-"+fmt.Sprint(g.Int(0, 9, "n")))...)
		}
		return goit(append(args, many(path, 1, 2)...)...)
	case 7:
		args := []string{"reset"}
		for _, f := range []string{"--soft", "--mixed", "--hard"} {
			if g.Chance(30, f) {
				args = append(args, f)
			}
		}
		switch g.Int(0, 3, "argform") {
		case 0:
			return inv(args...)
		case 1:
			return goit(append(args, g.Pick([]string{"HEAD", "HEAD@{}", "HEAD@{x}", "HEAD@{-1}", "xHEAD@{0}", "HEAD@{0}x", "HEAD@{99}", "main", "HEAD@{1}{2}", "HEAD@{00}", "HEAD@{+1}", "head@{0}", "Head@{1}", "HEAD@{0}\n", " HEAD@{0}", "HEAD@{0} "}, "pos"))...)
		default:
			return goit(append(args, fmt.Sprintf("HEAD@{%d}", g.Int(0, reflogLen(g)+1, "pos")))...)
		}
	case 8:
		return goit(append([]string{"status"}, many(path, 0, 1)...)...)
	case 9:
		switch g.Int(0, 3, "form") {
		case 0:
			return goit("log")
		case 1:
			return inv("log", "-n", g.Pick([]string{"x", "1.5", "", "1e3", "99999999999999999999"}, "badn"))
		default:
			if g.Chance(15, "hugeN") {
				return goit("log", "-n", g.Pick([]string{"2147483648", "4611686018427387904", "9223372036854775807", "-9223372036854775808"}, "huge"))
			}
			return goit("log", "-n", fmt.Sprint(g.Int(-2, 12, "n")))
		}
	case 10:
		return goit(append([]string{"reflog"}, many(path, 0, 1)...)...)
	case 11:
		switch g.Int(0, 4, "form") {
		case 0:
			return inv("config")
		case 1:
			return inv("config", "user.name")
		case 2:
			return inv("config", "username", "v")
		case 3:
			return inv("config", g.Pick([]string{"a.b.c", ".x", "x.", ".", ""}, "badkey"), "v")
		default:
			args := []string{"config"}
			if g.Bool("global") {
				args = append(args, "--global")
			}
			return goit(append(args, g.Pick([]string{"user.name", "user.email", "core.x", "a.b"}, "key"), noDash(g.Pick([]string{"v", "a=b", "[x]", "x y", "#", "\"q\"", "é"}, "val")))...)
		}
	case 12:
		switch g.Int(0, 5, "form") {
		case 0:
			return inv("cat-file")
		case 1:
			return inv("cat-file", "-p", g.someID(), g.someID())
		case 2:
			return inv("cat-file", "-t", "-p", g.someID())
		default:
			id := g.someID()
			st := goit("cat-file", g.Pick([]string{"-p", "-t"}, "flag"), id)
			if !gitfmt.IsHex40(id) && !strings.HasPrefix(id, "@commit#") {
				st.Note = "invalid"
			}
			if id == "" {
				st.Note = "invalid"
			}
			return st
		}
	case 13:
		args := []string{"ls-files"}
		if g.Bool("s") {
			args = append(args, "-s")
		}
		return goit(append(args, many(path, 0, 1)...)...)
	case 14:
		return goit(append([]string{"hash-object"}, many(path, 0, 2)...)...)
	case 15:
		return goit(append([]string{"rev-parse"}, many(func() string { return noDash(g.Pick([]string{"HEAD", "head", "main", g.someBranch(), "nosuch"}, "ref")) }, 0, 3)...)...)
	case 16:
		switch g.Int(0, 3, "form") {
		case 0:
			return inv("update-ref")
		case 1:
			return inv("update-ref", "refs/heads/main")
		case 2:
			return inv("update-ref", "refs/heads/main", g.someID(), "extra")
		default:
			id := g.someID()
			ref := g.Pick([]string{"refs/heads/" + noDash(g.someBranch()), "refs/heads/main", "main", "refs/tags/x", "refs/heads/"}, "ref")
			return goit("update-ref", ref, id)
		}
	case 17:
		return goit(append([]string{"write-tree"}, many(path, 0, 1)...)...)
	case 18:
		return goit(g.Pick([]string{"--version", "-v", "version", "--help", "help", "-t"}, "top"))
	case 19:
		if g.Bool("flagsWithoutArgs") {
			// flags given, required arguments missing
			return inv(g.PickArgs([][]string{{"cat-file", "-t"}, {"cat-file", "-p"}, {"cat-file", "--type"}, {"restore", "--staged"}, {"reset", "--hard"}, {"reset", "--soft"}, {"reset", "--mixed"},
				{"config", "--global"}, {"config", "--global", "user.name"}, {"branch", "-d"}, {"branch", "-r"}, {"switch", "-c"}, {"log", "-n"}, {"commit", "-m"}, {"update-ref", "refs/heads/main"}}, "flagform")...)
		}
		// unknown flags and sub-commands are refused by the argument parser
		sub := g.Pick([]string{"add", "commit", "rm", "branch", "switch", "restore", "reset", "status", "log", "reflog", "config", "cat-file", "ls-files", "hash-object", "rev-parse", "update-ref", "write-tree", "init"}, "subc")
		return inv(sub, "--no-such-flag")
	case 20:
		return inv(g.Pick([]string{"nosuchcommand", "checkout", "merge", "tag"}, "unknown"))
	default:
		return goit("status")
	}
}

func init() {
	ops = append(ops, opGen{"cmdline", always, genCommandLine})
	ops = append(ops, opGen{"switch-c-meta", hasCommit, func(g *G) Step {
		n := g.Pick(metaNames, "metaBranch")
		if strings.ContainsAny(n, "/\\") || strings.HasPrefix(n, "-") {
			n = "trail "
		}
		return goit("switch", "-c", n)
	}})
	ops = append(ops, opGen{"commit-change", hasCommit, func(g *G) Step { return goit("commit", "-m", g.Message(true)) }})
	ops = append(ops, opGen{"write-meta", always, func(g *G) Step {
		p := g.Pick([]string{"a(", "a[", "a*", "a+", "a?", "m(/x", "m[/y", "a{2}", "^a", "a$", "a|b"}, "metaFile")
		if !g.pathUsable(p) {
			p = g.NewPath()
		}
		return Step{Op: "write", Path: p, Data: g.SmallContent()}
	}})
}

var robustWeights = Weights{"cmdline": 55, "dir2file": 2, "file2dir": 1, "write-new": 8, "write-meta": 3, "modify": 4, "remove-file": 3, "rmdir": 2, "add": 8, "commit": 6, "rm": 2,
	"branch": 2, "branch-r": 2, "branch-d": 1, "switch-c": 2, "switch": 1, "reset": 3, "add-dot": 1, "switch-c-meta": 2}
