package cli

import (
	"encoding/hex"
	"encoding/json"
	"fmt"
	"sort"
	"strings"
	"testing"

	"github.com/JunNishimura/Goit/verifharness/core/findings"
	"github.com/JunNishimura/Goit/verifharness/core/gitfmt"
	"github.com/JunNishimura/Goit/verifharness/core/sbx"
	"github.com/JunNishimura/Goit/verifharness/core/stats"
	"pgregory.net/rapid"
)

// C05 — snapshot read-back: what Goit reads from a commit is what it wrote.
// (a) Crafted staging areas: path sets x arbitrary 20-byte ids written by the
// independent encoder; write-tree / commit / reset --mixed / cat-file -p never
// dereference blob ids, so every id value can be quantified over.

type c05Case struct {
	Entries []gitfmt.IndexEntry `json:"entries"` // sorted by path
	Empty   bool                `json:"empty"`   // also commit the empty snapshot afterwards and read it back
}

// checkTreeListing compares `cat-file -p <tree>` with the independent decoding, recursively.
func checkTreeListing(b *sbx.Box, st gitfmt.Store, treeID string, depth int) error {
	o, err := gitfmt.ReadObject(st, treeID)
	if err != nil {
		return err
	}
	es, err := gitfmt.DecodeTree(o.Data)
	if err != nil {
		return fmt.Errorf("harness: tree %s: %v", treeID, err)
	}
	if depth > 40 && depth%97 != 0 {
		// a very deep chain: the listing of every 97th level is compared, the levels between are only descended
		for _, e := range es {
			if e.IsDir() {
				if err := checkTreeListing(b, st, e.ID, depth+1); err != nil {
					return err
				}
			}
		}
		return nil
	}
	r := b.Run("cat-file", "-p", treeID)
	if !r.OK() {
		return fmt.Errorf("cat-file -p of tree %s failed: %s", treeID, r)
	}
	var want []string
	for _, e := range es {
		kind, mode := "blob", "100644"
		if e.IsDir() {
			kind, mode = "tree", "040000"
		}
		want = append(want, fmt.Sprintf("%s %s %s\t%s", mode, kind, e.ID, e.Name))
	}
	got := strings.TrimSuffix(r.Stdout, "\n")
	if got != strings.Join(want, "\n") {
		return fmt.Errorf("cat-file -p %s lists\n%q\nthe tree's direct children are\n%q", treeID, got, strings.Join(want, "\n"))
	}
	for _, e := range es {
		if e.IsDir() {
			if err := checkTreeListing(b, st, e.ID, depth+1); err != nil {
				return err
			}
		}
	}
	return nil
}

func lsFilesEquals(b *sbx.Box, want []gitfmt.IndexEntry, when string) error {
	r := b.Run("ls-files", "-s")
	if !r.OK() {
		return fmt.Errorf("%s: ls-files -s failed: %s", when, r)
	}
	var lines []string
	for _, e := range want {
		lines = append(lines, e.ID+"    "+e.Path)
	}
	if strings.TrimSuffix(r.Stdout, "\n") != strings.Join(lines, "\n") {
		return fmt.Errorf("%s: ls-files -s prints\n%q\nstaged when the commit was made:\n%q", when, r.Stdout, strings.Join(lines, "\n"))
	}
	return nil
}

func runC05(c *c05Case) error {
	b := sbx.New()
	defer b.Close()
	for _, a := range [][]string{{"init"}, {"config", "user.name", "U"}, {"config", "user.email", "u@example.com"}} {
		if r := b.Run(a...); !r.OK() {
			return fmt.Errorf("harness: %s", r)
		}
	}
	writeIndex := func(es []gitfmt.IndexEntry) error {
		return b.WriteGoitFile("index", gitfmt.EncodeIndex(es))
	}
	if err := writeIndex(c.Entries); err != nil {
		return err
	}
	// write-tree: the tree it prints flattens to exactly the staged pairs
	r := b.Run("write-tree")
	if !r.OK() {
		return fmt.Errorf("write-tree failed on %d entries: %s", len(c.Entries), r)
	}
	treeID := strings.TrimSpace(r.Stdout)
	st := gitfmt.DirStore(b.GoitDir())
	flat, err := gitfmt.FlattenTreeLoose(st, treeID)
	if err != nil {
		return fmt.Errorf("tree written by write-tree is not intact: %v", err)
	}
	if err := samePairs(flat, c.Entries); err != nil {
		return fmt.Errorf("write-tree: %v", err)
	}
	if len(c.Entries) > 0 {
		if r = b.Run("commit", "-m", "crafted"); !r.OK() {
			return fmt.Errorf("commit of crafted staging area failed: %s", r)
		}
	} else {
		c.Empty = true
		if err := writeIndex([]gitfmt.IndexEntry{{ID: strings.Repeat("ab", 20), Path: "seed"}}); err != nil {
			return err
		}
		if r = b.Run("commit", "-m", "seed"); !r.OK() {
			return fmt.Errorf("commit failed: %s", r)
		}
	}
	first := Observe(b).HeadCommit()
	readBack := func(pos int, want []gitfmt.IndexEntry, label string) error {
		// disturb the staging area, then read the commit back
		if err := writeIndex([]gitfmt.IndexEntry{{ID: strings.Repeat("cd", 20), Path: "zz-disturb"}}); err != nil {
			return err
		}
		r := b.Run("reset", "--mixed", fmt.Sprintf("HEAD@{%d}", pos))
		if !r.OK() {
			return fmt.Errorf("reset --mixed to the %s failed: %s", label, r)
		}
		if err := lsFilesEquals(b, want, "after reset --mixed to the "+label); err != nil {
			return err
		}
		ix, err := gitfmt.ReadIndex(b.GoitDir())
		if err != nil {
			return fmt.Errorf("staging area undecodable after reset: %v", err)
		}
		var got []gitfmt.PathID
		for _, e := range ix.Entries {
			got = append(got, gitfmt.PathID{Path: e.Path, ID: e.ID})
		}
		return samePairs(got, want)
	}
	if !c.Empty || len(c.Entries) > 0 {
		if err := readBack(0, c.Entries, "crafted commit"); err != nil {
			return err
		}
	}
	cm, err := gitfmt.ReadCommit(st, first)
	if err != nil {
		return fmt.Errorf("commit unreadable: %v", err)
	}
	if err := checkTreeListing(b, st, cm.Tree, 0); err != nil {
		return err
	}
	if c.Empty {
		// a commit made after every file was removed: the empty snapshot
		if err := writeIndex(nil); err != nil {
			return err
		}
		if r = b.Run("commit", "-m", "everything removed"); !r.OK() {
			return fmt.Errorf("commit of the emptied staging area failed: %s", r)
		}
		head := Observe(b).HeadCommit()
		cm2, err := gitfmt.ReadCommit(st, head)
		if err != nil {
			return err
		}
		if err := checkTreeListing(b, st, cm2.Tree, 0); err != nil {
			return err
		}
		if err := readBack(0, nil, "empty-snapshot commit"); err != nil {
			return err
		}
		for _, cmd := range [][]string{{"status"}, {"log"}, {"ls-files"}} {
			if r := b.Run(cmd...); !r.OK() {
				return fmt.Errorf("%v fails on the empty snapshot: %s", cmd, r)
			}
		}
		stats.Label("snapshot:empty")
		stats.Nontrivial("empty#" + mustJSON(c.Entries))
	}
	return nil
}

func samePairs(got []gitfmt.PathID, want []gitfmt.IndexEntry) error {
	var g, w []string
	for _, p := range got {
		g = append(g, p.Path+"\x00"+p.ID)
	}
	for _, e := range want {
		w = append(w, e.Path+"\x00"+e.ID)
	}
	sort.Strings(g)
	sort.Strings(w)
	if strings.Join(g, "\n") != strings.Join(w, "\n") {
		return fmt.Errorf("(path, id) pairs read back %q differ from the staged ones %q", g, w)
	}
	return nil
}

func init() {
	replayers["c05"] = func(_ string, raw json.RawMessage) error {
		var c c05Case
		if err := json.Unmarshal(raw, &c); err != nil {
			return err
		}
		return runC05(&c)
	}
}

// genPathSet builds a consistent set of paths (no file is also a directory) of depth 1..4.
func genPathSet(rt *rapid.T, max int) []string {
	g := &G{T: rt}
	set := map[string]bool{}
	var dirs = []string{""}
	n := rapid.IntRange(0, max).Draw(rt, "npaths")
	for i := 0; i < n; i++ {
		dir := dirs[rapid.IntRange(0, len(dirs)-1).Draw(rt, "dir")]
		depth := 0
		if dir != "" {
			depth = strings.Count(dir, "/") + 1
		}
		for depth < 3 && rapid.IntRange(0, 99).Draw(rt, "deeper") < 30 {
			c := g.DirComponent()
			nd := c
			if dir != "" {
				nd = dir + "/" + c
			}
			if set[nd] {
				break
			}
			dir = nd
			depth++
			dirs = append(dirs, dir)
		}
		p := g.Component()
		if dir != "" {
			p = dir + "/" + p
		}
		// keep files and directories disjoint
		bad := false
		for _, d := range dirs {
			if d == p {
				bad = true
			}
		}
		for q := range set {
			if strings.HasPrefix(p, q+"/") || strings.HasPrefix(q, p+"/") {
				bad = true
			}
		}
		if !bad {
			set[p] = true
		}
	}
	if v := rapid.IntRange(0, 99).Draw(rt, "veryDeep"); v == 57 || v == 58 { // (rapid favours the ends of a range: a middle value keeps this rare)
		// a file beneath many hundred directories (one level of recursion per level in every tree walker)
		d := []int{200, 999, 1000, 1001, 1002, 1500}[rapid.IntRange(0, 5).Draw(rt, "deepLevels")]
		p := strings.Repeat("q/", d) + g.Component()
		if !set["q"] {
			set[p] = true
		}
	}
	if v := rapid.IntRange(0, 99).Draw(rt, "longComponent"); v >= 40 && v <= 44 {
		// component lengths around the sizes of read blocks (mode + name = 128, 256, 512 bytes) and NAME_MAX
		l := []int{120, 121, 122, 248, 249, 250, 255, 256, 504, 505, 506}[rapid.IntRange(0, 10).Draw(rt, "componentLen")]
		name := strings.Repeat("L", l)
		p := name
		if rapid.Bool().Draw(rt, "asDirectory") {
			p = name + "/" + g.Component()
		}
		clash := false
		for q := range set {
			if strings.HasPrefix(q, name+"/") || q == name {
				clash = true
			}
		}
		if !clash {
			set[p] = true
		}
	}
	out := make([]string, 0, len(set))
	for p := range set {
		out = append(out, p)
	}
	sort.Strings(out)
	return out
}

// addTwinsAndShadows adds, with some probability, (a) a twin directory: the entries of one
// directory repeated under a sibling name with the same ids, so that two sub-trees have equal ids;
// (b) a shadow: for a staged file p an additional entry p/<name> (what the staging area holds after
// a tracked file was replaced by a directory and its content was added).
func addTwinsAndShadows(rt *rapid.T, es []gitfmt.IndexEntry) []gitfmt.IndexEntry {
	have := map[string]bool{}
	dirs := map[string]bool{}
	for _, e := range es {
		have[e.Path] = true
		if i := strings.Index(e.Path, "/"); i > 0 {
			dirs[e.Path[:i]] = true
		}
	}
	var ds []string
	for d := range dirs {
		ds = append(ds, d)
	}
	sort.Strings(ds)
	if len(ds) > 0 && rapid.IntRange(0, 99).Draw(rt, "twin") < 35 {
		d := ds[rapid.IntRange(0, len(ds)-1).Draw(rt, "twinOf")]
		twin := d + []string{"2", "-twin", ".copy", " b", "_"}[rapid.IntRange(0, 4).Draw(rt, "twinSuffix")]
		if !have[twin] && !dirs[twin] {
			for _, e := range es {
				if strings.HasPrefix(e.Path, d+"/") {
					es = append(es, gitfmt.IndexEntry{ID: e.ID, Path: twin + strings.TrimPrefix(e.Path, d)})
				}
			}
		}
	}
	if len(es) > 0 && rapid.IntRange(0, 99).Draw(rt, "shadow") < 25 {
		e := es[rapid.IntRange(0, len(es)-1).Draw(rt, "shadowOf")]
		p := e.Path + "/" + []string{"x", "util.go", "a b"}[rapid.IntRange(0, 2).Draw(rt, "shadowLeaf")]
		if !have[p] {
			es = append(es, gitfmt.IndexEntry{ID: genID(rt), Path: p})
		}
	}
	sort.Slice(es, func(i, j int) bool { return es[i].Path < es[j].Path })
	// drop accidental duplicates
	out := es[:0]
	for i, e := range es {
		if i == 0 || e.Path != es[i-1].Path {
			out = append(out, e)
		}
	}
	return out
}

func dedupeSorted(es []gitfmt.IndexEntry) []gitfmt.IndexEntry {
	sort.Slice(es, func(i, j int) bool { return es[i].Path < es[j].Path })
	out := es[:0]
	for i, e := range es {
		if i == 0 || e.Path != es[i-1].Path {
			// a file and a directory of the same name cannot both be given to the tree writer in this crafted form
			out = append(out, e)
		}
	}
	return out
}

func genID(rt *rapid.T) string {
	id := rapid.SliceOfN(rapid.Byte(), 20, 20).Draw(rt, "id")
	if rapid.IntRange(0, 99).Draw(rt, "plant") < 45 {
		v := []byte{0x00, 0x20, 0x0a, 0x09, 0x2f}[rapid.IntRange(0, 4).Draw(rt, "plantByte")]
		for _, pos := range []int{0, 9, 19} {
			if rapid.Bool().Draw(rt, "at") {
				id[pos] = v
			}
		}
	}
	return hex.EncodeToString(id)
}

func TestC05(t *testing.T) {
	rapid.Check(t, func(rt *rapid.T) {
		c := &c05Case{}
		for _, p := range genPathSet(rt, 7) {
			c.Entries = append(c.Entries, gitfmt.IndexEntry{ID: genID(rt), Path: p})
		}
		c.Entries = addTwinsAndShadows(rt, c.Entries)
		if rapid.IntRange(0, 99).Draw(rt, "manyEntries") < 4 {
			// a directory with hundreds of entries (counts beyond one byte, a tree object of several KiB)
			n := []int{255, 256, 257, 300, 600}[rapid.IntRange(0, 4).Draw(rt, "count")]
			dir := []string{"", "many/", "d/many-x/"}[rapid.IntRange(0, 2).Draw(rt, "manyDir")]
			for i := 0; i < n; i++ {
				c.Entries = append(c.Entries, gitfmt.IndexEntry{ID: genID(rt), Path: fmt.Sprintf("%sf%04d", dir, i)})
			}
			if rapid.Bool().Draw(rt, "bigChildToo") {
				// a big tree whose FIRST child is a big tree too (both larger than a page)
				for i := 0; i < n; i++ {
					c.Entries = append(c.Entries, gitfmt.IndexEntry{ID: genID(rt), Path: fmt.Sprintf("%sa-first/g%04d", dir, i)})
				}
			}
			c.Entries = dedupeSorted(c.Entries)
		}
		c.Empty = rapid.IntRange(0, 9).Draw(rt, "alsoEmpty") == 0
		stats.Eval()
		nested, space, hostileID := false, false, false
		var paths []string
		for _, e := range c.Entries {
			paths = append(paths, e.Path)
			nested = nested || strings.Contains(e.Path, "/")
			space = space || strings.Contains(e.Path, " ")
			hostileID = hostileID || strings.Contains(e.ID, "00") || strings.Contains(e.ID, "20") || strings.Contains(e.ID, "0a")
		}
		fam := hasBetweenSibling(paths)
		stats.LabelIf(nested, "snapshot:nested")
		stats.LabelIf(space, "snapshot:space-in-name")
		stats.LabelIf(fam, "snapshot:between-sibling-family")
		stats.LabelIf(hostileID, "snapshot:id-with-00/20/0a-byte")
		err := runC05(c)
		if err != nil {
			findings.Save("C05", "c05", c, err)
			rt.Fatalf("C05 violated: %v", err)
		}
		if len(c.Entries) >= 3 && nested || fam || space || hostileID {
			stats.Nontrivial(mustJSON(c.Entries))
		}
		if stats.WantSample() && len(c.Entries) > 1 {
			stats.Sample(c.Entries)
		}
	})
}
