package cli

import (
	"bufio"
	"fmt"
	"os"
	"path/filepath"
	"regexp"
	"strconv"
	"strings"

	"github.com/JunNishimura/Goit/verifharness/core/findings"
	"github.com/JunNishimura/Goit/verifharness/core/sbx"
	"github.com/JunNishimura/Goit/verifharness/core/stats"
)

// C15 — crash consistency; C16 — I/O failures are reported, never silently absorbed.
// Both run an instrumented copy of the working tree (tools/osrewrite + shim/vos):
// every os.* call of Goit's own source is numbered; a run can be killed before
// modification k or have its k-th faultable operation fail.

const frozenNow = 1_700_000_123

func shimBin() string {
	b := os.Getenv("VERIF_GOIT_SHIM")
	if b == "" {
		panic("VERIF_GOIT_SHIM is not set: run through /verif/check")
	}
	return b
}

type shimOp struct {
	Mod   int // 0 = not a modification
	Fault int
	Kind  string
	Path  string
}

// runShim runs the instrumented binary in the box with extra environment and returns its operation log.
func runShim(b *sbx.Box, args []string, env ...string) (sbx.Result, []shimOp) {
	logp := filepath.Join(b.Root, "shim.log")
	os.Remove(logp)
	nb := *b
	nb.Bin = shimBin()
	nb.Extra = append(append([]string{}, b.Extra...), "VERIF_SHIM_LOG="+logp, fmt.Sprintf("VERIF_NOW=%d", frozenNow))
	nb.Extra = append(nb.Extra, env...)
	r := nb.Run(args...)
	var ops []shimOp
	if f, err := os.Open(logp); err == nil {
		sc := bufio.NewScanner(f)
		for sc.Scan() {
			fs := strings.SplitN(sc.Text(), " ", 4)
			if len(fs) < 4 {
				continue
			}
			m, _ := strconv.Atoi(fs[0])
			ft, _ := strconv.Atoi(fs[1])
			ops = append(ops, shimOp{Mod: m, Fault: ft, Kind: fs[2], Path: fs[3]})
		}
		f.Close()
	}
	os.Remove(logp)
	return r, ops
}

var objPathRe = regexp.MustCompile(`objects/[0-9a-f]{2}(/[0-9a-f]{38})?$`)

// fileClass abstracts a path to the class of repository file it belongs to.
func fileClass(b *sbx.Box, p string) string {
	if i := strings.Index(p, " -> "); i >= 0 {
		p = p[:i]
	}
	rel := p
	if strings.HasPrefix(p, b.Work+"/") {
		rel = strings.TrimPrefix(p, b.Work+"/")
	} else if strings.HasPrefix(p, b.Home+"/") {
		return "global-config"
	}
	rel = strings.TrimSuffix(rel, ".tmp") // temporary files belong to the class of the file they replace
	if rel == ".goit/branch" {
		return "branch"
	}
	if rel == ".goit/object" || strings.HasPrefix(rel, ".goit/object.") {
		return "object" // .goit/object.tmp, .goit/object.<pid>.tmp
	}
	switch {
	case rel == ".goit" || rel == ".goit.init" || strings.HasPrefix(rel, ".goit.init/") || rel == ".goit/objects" || rel == ".goit/refs" || rel == ".goit/refs/heads" || rel == ".goit/refs/tags":
		return "skeleton"
	case rel == ".goit/index":
		return "index"
	case rel == ".goit/HEAD":
		return "HEAD"
	case rel == ".goit/config":
		return "config"
	case strings.HasPrefix(rel, ".goit/refs/heads/"):
		return "branch"
	case strings.HasPrefix(rel, ".goit/logs"):
		return "logs"
	case objPathRe.MatchString(rel):
		return "object"
	case strings.HasPrefix(rel, ".goit/"):
		return "other-goit"
	}
	return "worktree"
}

// readOnlyProbe runs the read-only commands and returns their exit statuses (and whether any panicked).
var probeCmds = [][]string{{"ls-files"}, {"rev-parse", "HEAD"}, {"branch", "--list"}, {"log"}, {"status"}, {"reflog"}}

type probe struct {
	Exit  []int
	Panic string
}

func readOnlyProbe(b *sbx.Box) probe {
	var p probe
	for _, c := range probeCmds {
		r := b.Run(c...)
		p.Exit = append(p.Exit, r.Exit)
		if r.Panic || r.Timeout {
			p.Panic = fmt.Sprintf("%v: %s", c, r)
		}
	}
	return p
}

// faultCase is the replay unit of C15 and C16.
type faultCase struct {
	State   string   `json:"state"`
	Setup   []Step   `json:"setup"`
	Command []string `json:"command"`
	CrashAt int      `json:"crash_at,omitempty"`
	FailAt  int      `json:"fail_at,omitempty"`
	Errno   string   `json:"errno,omitempty"`
	Short   bool     `json:"short,omitempty"`
	// AtOp selects the point by "<file class>:<operation kind>[#n]" of the fault-free run (n-th match, default first)
	// instead of by number, so that a pinned case survives unrelated changes of the operation sequence.
	AtOp string `json:"at_op,omitempty"`
}

var profNone = register(&Profile{ID: "C15", Name: "none"})

// prepared holds the base state and the fault-free reference run of one (state, command).
type prepared struct {
	base    *Exec
	pre     *Obs
	post    *Obs
	preP    probe
	postP   probe
	ffRes   sbx.Result
	ffOut   string // standard output of the fault-free run, with the box directory replaced
	ffOps   []shimOp
	nMod    int
	nFault  int
	fsckRef bool // Fsck holds before and after the fault-free run
	// a new file can be added and committed before the command / after its complete run
	preCommitOK, postCommitOK bool
	cmd     []string
}

func prepare(setup []Step, command []string) (*prepared, error) {
	e := NewExec(profNone)
	for _, st := range setup {
		if err := e.Do(st); err != nil {
			e.Close()
			return nil, err
		}
	}
	p := &prepared{base: e, pre: e.Cur}
	// "@<branch>" arguments stand for the commit id that branch holds in THIS instance of the state
	command = resolveArgs(e.Cur, command)
	p.cmd = command
	pb := e.Box.Clone()
	p.preP = readOnlyProbe(pb)
	pb.Close()
	ff := e.Box.Clone()
	defer ff.Close()
	p.ffRes, p.ffOps = runShim(ff, command)
	p.ffOut = strings.ReplaceAll(p.ffRes.Stdout, filepath.Dir(ff.Work), "<box>")
	p.post = Observe(ff)
	p.postP = readOnlyProbe(ff)
	for _, o := range p.ffOps {
		if o.Mod > p.nMod {
			p.nMod = o.Mod
		}
		if o.Fault > p.nFault {
			p.nFault = o.Fault
		}
	}
	p.fsckRef = Fsck(p.pre) == nil && Fsck(p.post) == nil
	_, p.preCommitOK = commitProbe(e.Box)
	_, p.postCommitOK = commitProbe(ff)
	return p, nil
}

func (p *prepared) close() { p.base.Close() }

type faultViolation struct {
	Sig string // signature used to match known findings
	Err error
}

func (v *faultViolation) Error() string {
	s := v.Err.Error() + " [signature " + v.Sig + "]"
	for _, pid := range []string{"C15", "C16"} {
		if key, ok := knownFault(pid, v.Sig); ok {
			s += " matches-known-finding=" + key
		}
	}
	return s
}

func cmdKind(command []string) string {
	k := command[0]
	for _, a := range command[1:] {
		if strings.HasPrefix(a, "-") && a != "-m" {
			k += a
		}
	}
	return k
}

// crashOracle judges the state a kill left behind.
func (p *prepared) crashOracle(b *sbx.Box, command []string, k int, interrupted shimOp, prev shimOp) *faultViolation {
	s := Observe(b)
	window := fmt.Sprintf("%s:%s>%s:%s", fileClass(b, prev.Path), prev.Kind, fileClass(b, interrupted.Path), interrupted.Kind)
	if prev.Kind == "" {
		window = fmt.Sprintf("start>%s:%s", fileClass(b, interrupted.Path), interrupted.Kind)
	}
	mk := func(symptom string, err error) *faultViolation {
		return &faultViolation{Sig: fmt.Sprintf("crash|%s|%s|%s", cmdKind(command), window, symptom), Err: fmt.Errorf("killed before modification %d (%s %s) of %v: %w", k, interrupted.Kind, interrupted.Path, command, err)}
	}
	// (1) every read-only command still loads the repository (as well as before or after)
	pr := readOnlyProbe(b)
	if pr.Panic != "" {
		return mk("read-only-command-crashes", fmt.Errorf("a read-only command crashes afterwards: %s", pr.Panic))
	}
	for i, c := range probeCmds {
		if pr.Exit[i] != p.preP.Exit[i] && pr.Exit[i] != p.postP.Exit[i] {
			return mk("unloadable", fmt.Errorf("%v exits %d afterwards (before the command: %d, after a complete run: %d)", c, pr.Exit[i], p.preP.Exit[i], p.postP.Exit[i]))
		}
	}
	// (2) connectivity
	if p.fsckRef {
		if err := Fsck(s); err != nil {
			sym := "disconnected"
			if strings.Contains(err.Error(), "damaged") {
				sym = "damaged-object"
			} else if strings.Contains(err.Error(), "HEAD") {
				sym = "bad-HEAD"
			} else if strings.Contains(err.Error(), "not a full id") {
				sym = "bad-branch-file"
			} else if strings.Contains(err.Error(), "staged path") || strings.Contains(err.Error(), "staging area") {
				sym = "bad-staging-area"
			}
			return mk(sym, fmt.Errorf("repository not connected afterwards: %v", err))
		}
	}
	// (3) each branch names the commit it named before or the one the command installs
	for n, v := range s.Branches {
		if v != p.pre.Branches[n] && v != p.post.Branches[n] {
			return mk("foreign-branch-value", fmt.Errorf("branch %q holds %q afterwards (before: %q, complete run: %q)", n, v, p.pre.Branches[n], p.post.Branches[n]))
		}
		_, inPre := p.pre.Branches[n]
		_, inPost := p.post.Branches[n]
		if !inPre && !inPost {
			return mk("foreign-branch", fmt.Errorf("branch %q exists afterwards but neither before nor after a complete run", n))
		}
	}
	if s.HasGoit && s.Head != p.pre.Head && s.Head != p.post.Head {
		return mk("foreign-HEAD", fmt.Errorf("HEAD is %q afterwards (before %q, complete run %q)", s.Head, p.pre.Head, p.post.Head))
	}
	// (4) "still usable": where a new commit could be made before the command and after its complete run,
	// it can be made in the state the kill left behind
	if p.preCommitOK && p.postCommitOK {
		if r, ok := commitProbe(b); !ok {
			return mk("cannot-commit-afterwards", fmt.Errorf("a new file can no longer be added and committed afterwards: %s", r))
		}
	}
	return nil
}

// commitProbe stages and commits a new file in a clone of the box (the box itself is left alone).
func commitProbe(b *sbx.Box) (string, bool) {
	c := b.Clone()
	defer c.Close()
	if err := c.WriteFile("verif-probe.txt", []byte("probe\n")); err != nil {
		return err.Error(), false
	}
	if r := c.Run("add", "verif-probe.txt"); !r.OK() {
		return r.String(), false
	}
	if r := c.Run("commit", "-m", "probe"); !r.OK() {
		return r.String(), false
	}
	// what the new commit refers to has to be there: trees that an interrupted run stored must not make a later
	// run skip the objects beneath them
	if err := Fsck(Observe(c)); err != nil {
		return "after the commit: " + err.Error(), false
	}
	return "", true
}

// runCrashPoint executes one crash point; returns nil when the property holds there.
func (p *prepared) runCrashPoint(command []string, k int) (*faultViolation, string) {
	b := p.base.Box.Clone()
	defer b.Close()
	r, ops := runShim(b, command, fmt.Sprintf("VERIF_CRASH_AT=%d", k))
	if r.Signal == "" && !strings.Contains(r.Signal, "kill") {
		if r.Exit == p.ffRes.Exit {
			return nil, "not-reached"
		}
	}
	var interrupted, prev shimOp
	for i, o := range ops {
		if strings.HasPrefix(o.Kind, "CRASH-BEFORE-") {
			interrupted = shimOp{Mod: o.Mod, Kind: strings.TrimPrefix(o.Kind, "CRASH-BEFORE-"), Path: o.Path}
			for j := i - 1; j >= 0; j-- {
				if ops[j].Mod > 0 {
					prev = ops[j]
					break
				}
			}
		}
	}
	if interrupted.Kind == "" {
		return nil, "not-reached"
	}
	class := fmt.Sprintf("%s|%s|%s:%s", cmdKind(command), stateClass(p.pre), fileClass(b, interrupted.Path), interrupted.Kind)
	return p.crashOracle(b, command, k, interrupted, prev), class
}

// ---------------------------------------------------------------- C16

func errnoFor(k int) (string, bool) {
	switch k % 4 {
	case 0:
		return "EIO", false
	case 1:
		return "ENOSPC", true
	case 2:
		return "EACCES", false
	}
	return "ENOSPC", false
}

func (p *prepared) runFaultPoint(command []string, k int) (*faultViolation, string) {
	b := p.base.Box.Clone()
	defer b.Close()
	errno, short := errnoFor(k)
	env := []string{fmt.Sprintf("VERIF_FAIL_AT=%d", k), "VERIF_FAIL_ERRNO=" + errno}
	if short {
		env = append(env, "VERIF_FAIL_SHORT=1")
	}
	r, ops := runShim(b, command, env...)
	var hit shimOp
	for _, o := range ops {
		if strings.HasPrefix(o.Kind, "FAULT-") {
			hit = shimOp{Kind: strings.TrimPrefix(o.Kind, "FAULT-"), Path: o.Path, Mod: o.Mod}
		}
	}
	if hit.Kind == "" {
		return nil, "not-reached"
	}
	fc := fileClass(b, hit.Path)
	class := fmt.Sprintf("%s|%s:%s", cmdKind(command), fc, hit.Kind)
	mk := func(symptom string, err error) *faultViolation {
		return &faultViolation{Sig: fmt.Sprintf("fault|%s|%s:%s|%s", cmdKind(command), fc, hit.Kind, symptom), Err: fmt.Errorf("operation %d (%s %s) of %v fails with %s: %w", k, hit.Kind, hit.Path, command, errno, err)}
	}
	if r.Panic || r.Timeout || (r.Exit != 0 && r.Exit != 1) {
		return mk("crash", fmt.Errorf("the command crashes: %s", r)), class
	}
	s := Observe(b)
	if r.Exit == 0 {
		// success is only allowed with exactly the fault-free result
		var d []string
		d = append(d, sbx.Diff(p.post.Goit, s.Goit, nil)...)
		d = append(d, sbx.DiffFiles(p.post.Work, s.Work, nil)...)
		d = append(d, sbx.DiffFiles(p.post.Home, s.Home, nil)...)
		if len(d) > 0 {
			return mk("success-with-different-result", fmt.Errorf("the command reports success but the result differs from the fault-free result: %v", d)), class
		}
		if out := strings.ReplaceAll(r.Stdout, filepath.Dir(b.Work), "<box>"); out != p.ffOut {
			return mk("success-with-different-output", fmt.Errorf("the command reports success but prints %q instead of %q", clipS(out), clipS(p.ffOut))), class
		}
		return nil, class
	}
	// failure reported: the repository must still be connected, no branch advanced to an incomplete commit
	if p.fsckRef {
		if err := Fsck(s); err != nil {
			sym := "disconnected"
			if strings.Contains(err.Error(), "HEAD") {
				sym = "bad-HEAD"
			} else if strings.Contains(err.Error(), "not a full id") {
				sym = "bad-branch-file"
			} else if strings.Contains(err.Error(), "staging area") || strings.Contains(err.Error(), "staged path") {
				sym = "bad-staging-area"
			} else if strings.Contains(err.Error(), "damaged") {
				sym = "damaged-object"
			}
			return mk(sym, fmt.Errorf("after the reported failure the repository is not connected: %v", err)), class
		}
	}
	for n, v := range s.Branches {
		if v != p.pre.Branches[n] && v != p.post.Branches[n] {
			return mk("branch-advanced-to-foreign-commit", fmt.Errorf("branch %q was advanced to %q, which is not the commit a fault-free run installs (%q)", n, v, p.post.Branches[n])), class
		}
	}
	return nil, class
}

func clipS(s string) string {
	if len(s) > 300 {
		return s[:300] + "…"
	}
	return s
}

// knownFault reports whether the signature belongs to an open finding of the property.
func knownFault(pid, sig string) (string, bool) {
	for _, k := range findings.ForProperty(pid) {
		if pat := faultPatterns[k.Key]; pat != nil && pat.MatchString(sig) {
			return k.Key, true
		}
	}
	return "", false
}

// faultPatterns maps finding keys to the signatures (command, window, symptom) they cover.
// A signature outside these patterns is a VIOLATION even while the finding is open.
var faultPatterns = map[string]*regexp.Regexp{
	// `branch -r` renames the branch file before HEAD follows (two files, no atomic step)
	"rename-head-window-crash": regexp.MustCompile(`^crash\|branch-r\|(branch:rename>HEAD:create|HEAD:create>HEAD:write|HEAD:write>HEAD:rename)\|(unloadable|bad-HEAD)$`),
	"rename-head-window-fault": regexp.MustCompile(`^fault\|branch-r\|HEAD:(create|write|rename)\|bad-HEAD$`),
}

func countFault(v *faultViolation, pid string) error {
	if v == nil {
		return nil
	}
	if key, ok := knownFault(pid, v.Sig); ok {
		stats.Rehit(key)
		return nil
	}
	return v
}
