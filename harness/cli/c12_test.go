package cli

import (
	"encoding/json"
	"fmt"
	"os"
	"strconv"
	"strings"
	"testing"

	"github.com/JunNishimura/Goit/verifharness/core/findings"
	"github.com/JunNishimura/Goit/verifharness/core/gitfmt"
	"github.com/JunNishimura/Goit/verifharness/core/sbx"
	"github.com/JunNishimura/Goit/verifharness/core/stats"
	"github.com/JunNishimura/Goit/verifharness/core/tz"
	"pgregory.net/rapid"
)

// C12 (CLI layer): commit under every quarter-hour UTC offset, then read back
// with cat-file -p and log.

type c12Case struct {
	OffsetMin int    `json:"offset_min"`
	Name      string `json:"name"`
	Email     string `json:"email"`
	Message   string `json:"message"`
	// where the identity is configured: bit 0 = name global, bit 1 = e-mail global
	Scope int `json:"scope"`
	// UTC offsets (minutes) of earlier commits of the same repository, oldest first: one `log` process then reads
	// commits made under different offsets, and each must be shown with its own
	Earlier []int `json:"earlier,omitempty"`
}

func runC12(c *c12Case) error {
	b := sbx.New()
	defer b.Close()
	b.TZMin = c.OffsetMin
	nameCmd, mailCmd := []string{"config", "user.name", c.Name}, []string{"config", "user.email", c.Email}
	if c.Scope&1 != 0 {
		nameCmd = []string{"config", "--global", "user.name", c.Name}
	}
	if c.Scope&2 != 0 {
		mailCmd = []string{"config", "--global", "user.email", c.Email}
	}
	for _, a := range [][]string{{"init"}, nameCmd, mailCmd} {
		if r := b.Run(a...); !r.OK() {
			return fmt.Errorf("harness: %s", r)
		}
	}
	for k, off := range c.Earlier {
		b.TZMin = off
		b.WriteFile("f", []byte(fmt.Sprintf("earlier %d\n", k)))
		if r := b.Run("add", "f"); !r.OK() {
			return fmt.Errorf("harness: %s", r)
		}
		if r := b.Run("commit", "-m", fmt.Sprintf("earlier %d", k)); !r.OK() {
			return fmt.Errorf("commit failed under UTC offset %s: %s", tz.Format(off), r)
		}
	}
	b.TZMin = c.OffsetMin
	b.WriteFile("f", []byte("x\n"))
	if r := b.Run("add", "f"); !r.OK() {
		return fmt.Errorf("harness: %s", r)
	}
	r := b.Run("commit", "-m", c.Message)
	if !r.OK() {
		return fmt.Errorf("commit failed under UTC offset %s with identity %q <%s>: %s", tz.Format(c.OffsetMin), c.Name, c.Email, r)
	}
	o := Observe(b)
	id := o.HeadCommit()
	cm, err := gitfmt.ReadCommit(o.Store, id)
	if err != nil {
		return fmt.Errorf("stored commit does not have the Git form: %v", err)
	}
	for what, s := range map[string]gitfmt.Sign{"author": cm.Author, "committer": cm.Committer} {
		if s.Name != c.Name || s.Email != c.Email {
			return fmt.Errorf("%s line records %q <%s>, configured %q <%s>", what, s.Name, s.Email, c.Name, c.Email)
		}
		if s.Offset != tz.Format(c.OffsetMin) {
			return fmt.Errorf("%s line %q: offset %s, the process runs at %s", what, s.Raw, s.Offset, tz.Format(c.OffsetMin))
		}
		if s.Secs <= 0 {
			return fmt.Errorf("%s line %q: bad instant", what, s.Raw)
		}
	}
	if cm.Message != c.Message+"\n" {
		return fmt.Errorf("stored message %q, given %q", cm.Message, c.Message)
	}
	// read back through Goit
	rp := b.Run("cat-file", "-p", id)
	if !rp.OK() {
		return fmt.Errorf("cat-file -p of the commit failed: %s", rp)
	}
	wantLine := fmt.Sprintf("author %s <%s> %d %s\n", c.Name, c.Email, cm.Author.Secs, tz.Format(c.OffsetMin))
	if !strings.Contains(rp.Stdout, wantLine) || !strings.HasSuffix(rp.Stdout, "\n\n"+c.Message+"\n\n") {
		return fmt.Errorf("cat-file -p does not show the author line %q and the message %q:\n%s", wantLine, c.Message, rp.Stdout)
	}
	rl := b.Run("log", "-n", "1")
	if !rl.OK() {
		return fmt.Errorf("log failed on a commit made at offset %s: %s", tz.Format(c.OffsetMin), rl)
	}
	blocks, err := ParseLog(rl.Stdout)
	if err != nil || len(blocks) != 1 {
		return fmt.Errorf("log output unparsable (%v):\n%s", err, rl.Stdout)
	}
	bl := blocks[0]
	if bl.ID != id || bl.Author != c.Name+" <"+c.Email+">" {
		return fmt.Errorf("log shows commit %s author %q, want %s %q", bl.ID, bl.Author, id, c.Name+" <"+c.Email+">")
	}
	if strings.TrimRight(bl.Message, "\n") != strings.TrimRight(c.Message, "\n") {
		return fmt.Errorf("log shows message %q, given %q", bl.Message, c.Message)
	}
	// Date: Go's time.Time.String(): "2006-01-02 15:04:05 -0700 <zone>": same instant, same numeric zone
	f := strings.Fields(bl.Date)
	if len(f) < 3 || f[2] != tz.Format(c.OffsetMin) {
		return fmt.Errorf("log shows date %q, whose numeric zone is not %s", bl.Date, tz.Format(c.OffsetMin))
	}
	if got, err := parseLogDate(f[0], f[1], f[2]); err != nil || got != cm.Author.Secs {
		return fmt.Errorf("log shows date %q = instant %d (%v), stored instant %d", bl.Date, got, err, cm.Author.Secs)
	}
	if len(c.Earlier) > 0 {
		// the whole history in one process: every commit with its own offset and instant
		rl := b.Run("log", "-n", strconv.Itoa(len(c.Earlier)+1))
		if !rl.OK() {
			return fmt.Errorf("log -n %d failed: %s", len(c.Earlier)+1, rl)
		}
		blocks, err := ParseLog(rl.Stdout)
		if err != nil || len(blocks) != len(c.Earlier)+1 {
			return fmt.Errorf("log -n %d printed %d commits (%v):\n%s", len(c.Earlier)+1, len(blocks), err, rl.Stdout)
		}
		offs := append(append([]int{}, c.Earlier...), c.OffsetMin)
		cur := id
		for k, bl := range blocks {
			want := offs[len(offs)-1-k]
			cmk, err := gitfmt.ReadCommit(o.Store, cur)
			if err != nil {
				return fmt.Errorf("commit %s not readable: %v", cur, err)
			}
			if cmk.Author.Offset != tz.Format(want) {
				return fmt.Errorf("commit %d from the top was made at %s and stores %q", k, tz.Format(want), cmk.Author.Raw)
			}
			f := strings.Fields(bl.Date)
			if bl.ID != cur || len(f) < 3 || f[2] != tz.Format(want) {
				return fmt.Errorf("log -n %d shows commit %d from the top (%s, stored at offset %s) as %s with date %q (offsets of the history, oldest first: %v)", len(offs), k, cur[:8], tz.Format(want), bl.ID[:8], bl.Date, offs)
			}
			if got, err := parseLogDate(f[0], f[1], f[2]); err != nil || got != cmk.Author.Secs {
				return fmt.Errorf("log shows date %q = instant %d (%v) for commit %s, stored instant %d", bl.Date, got, err, cur[:8], cmk.Author.Secs)
			}
			if len(cmk.Parents) > 0 {
				cur = cmk.Parents[0]
			}
		}
	}
	return nil
}

func init() {
	replayers["c12cli"] = func(_ string, raw json.RawMessage) error {
		var c c12Case
		if err := json.Unmarshal(raw, &c); err != nil {
			return err
		}
		return runC12(&c)
	}
}

func (g *G) hostileMessage() string {
	e := &Exec{}
	gg := &G{T: g.T, E: e}
	return gg.Message(true)
}

func TestC12CLI(t *testing.T) {
	offsets := tz.AllQuarterHours()
	shard, _ := strconv.Atoi(os.Getenv("VERIF_SHARD"))
	nsh, _ := strconv.Atoi(os.Getenv("VERIF_NSHARDS"))
	if nsh < 1 {
		nsh = 1
	}
	// every offset is covered in every run (exhaustive over the 105 offsets), the rest is random
	i := 0
	rapid.Check(t, func(rt *rapid.T) {
		g := &G{T: rt, E: &Exec{}}
		var off int
		if i < len(offsets) {
			off = offsets[(i*nsh+shard)%len(offsets)]
			i++
		} else {
			off = offsets[rapid.IntRange(0, len(offsets)-1).Draw(rt, "offset")]
		}
		c := &c12Case{OffsetMin: off, Name: g.UserName(), Email: g.Email(), Message: g.Message(true), Scope: g.Int(0, 3, "identityScope")}
		if g.Chance(50, "history") {
			n := g.Int(1, 3, "earlier")
			for k := 0; k < n; k++ {
				e := offsets[g.Int(0, len(offsets)-1, "earlierOffset")]
				switch g.Int(0, 3, "relation") {
				case 0: // the same hour, other minutes
					e = off + g.Pick2([]int{-45, -30, -15, 15, 30, 45}, "delta")
				case 1: // the other side of UTC
					e = -off
				}
				if e < offsets[0] || e > offsets[len(offsets)-1] {
					e = off
				}
				c.Earlier = append(c.Earlier, e)
			}
		}
		stats.Eval()
		stats.LabelIf(len(c.Earlier) > 0, "history:several-offsets-in-one-log")
		stats.LabelIf(off < 0, "offset:negative")
		stats.LabelIf(off%60 != 0, "offset:fractional-hour")
		stats.LabelIf(strings.Contains(c.Message, "\n"), "message:multi-line")
		if err := runC12(c); err != nil {
			findings.Save("C12", "c12cli", c, err)
			rt.Fatalf("C12 violated: %v", err)
		}
		if off != 0 || strings.Contains(c.Message, "\n") || !isASCII(c.Message) {
			stats.Nontrivial(fmt.Sprintf("%d#%s#%s", off, c.Name, c.Message))
		}
		if stats.WantSample() {
			stats.Sample(c)
		}
	})
	if i >= len(offsets)/nsh {
		stats.Exhaustive("UTC offsets (quarter hours in [-12:00,+14:00]) covered by the CLI layer across shards", len(offsets))
	}
}
