package cli

import (
	"fmt"
	"sort"
	"strings"

	"github.com/JunNishimura/Goit/verifharness/core/findings"
	"github.com/JunNishimura/Goit/verifharness/core/stats"
	"pgregory.net/rapid"
)

// G bundles the rapid source with the executor whose state the draws look at.
type G struct {
	T *rapid.T
	E *Exec
}

func (g *G) Int(lo, hi int, label string) int { return rapid.IntRange(lo, hi).Draw(g.T, label) }
func (g *G) Bool(label string) bool          { return rapid.Bool().Draw(g.T, label) }

// Chance is true with probability pct/100.
func (g *G) Chance(pct int, label string) bool { return g.Int(0, 99, label) < pct }

func (g *G) Pick2(xs []int, label string) int {
	return xs[rapid.IntRange(0, len(xs)-1).Draw(g.T, label)]
}

func (g *G) PickArgs(xs [][]string, label string) []string {
	return xs[rapid.IntRange(0, len(xs)-1).Draw(g.T, label)]
}

func (g *G) Pick(xs []string, label string) string {
	return xs[rapid.IntRange(0, len(xs)-1).Draw(g.T, label)]
}

// Weighted draws an index according to integer weights.
func (g *G) Weighted(ws []int, label string) int {
	tot := 0
	for _, w := range ws {
		tot += w
	}
	r := g.Int(0, tot-1, label)
	for i, w := range ws {
		if r < w {
			return i
		}
		r -= w
	}
	return len(ws) - 1
}

// ---------------------------------------------------------------- names

// Components are built as base+suffix so that "confusable families" are common:
// a directory `lib/` next to `lib.go`, `lib-old`, `lib0`, `lib b`, `lib(1)`;
// siblings that sort between `d` and `d/` ('-' 0x2d, '.' 0x2e < '/' 0x2f < '0');
// names that are prefixes / substrings of each other; regexp metacharacters.
var (
	bases    = []string{"a", "b", "d", "ad", "lib", "test", "x", "é", "Z", "build", "r\xe9sum\xe9", "rebuild", "mytest", "\xff", "~", "\xffz", "#a", "!x"}
	suffixes = []string{"", "", "", ".go", ".c", "-old", "-data", "0", "1", " b", "(1)", "(", "+", "_", ".", "[", "ü", " ", "-", "+x", ".txt", ".log", ".tmp", ".tmpx", ".c++", "\xff", "%d", "%", "100%s", `\b`, `\`, ".gz", ".tar.gz", ".tmp "}
	// IgnoreDirs / IgnoreExts are what a generated .goitignore may contain. Extensions are never
	// used in directory names, so "ignored" is unambiguous in the generated domain.
	IgnoreDirs = []string{"build", "lib-old", "test.c", "r\xe9sum\xe9", "é-old", "#a", "!x"} // "#a", "!x": an entry is a name, not a remark or a negation
	IgnoreExts = []string{".log", ".tmp", ".tmpx", ".c++", ".tar.gz", ".tmp "} // ".tmp ": the trailing blank belongs to the entry
)

// openNameExclusions: characters excluded from names while a finding is open.
func nameAllowed(name string) bool {
	if findings.Open("tree-name-space") && strings.Contains(name, " ") {
		stats.Excluded("tree-name-space")
		return false
	}
	if findings.Open("regexp-meta-name") && strings.ContainsAny(name, "([+") {
		stats.Excluded("regexp-meta-name")
		return false
	}
	return true
}

func (g *G) Component() string {
	for i := 0; ; i++ {
		c := g.Pick(bases, "base") + g.Pick(suffixes, "suffix")
		if c == "" || c == "." || c == ".." || strings.HasSuffix(c, ".") && len(c) == 1 {
			continue
		}
		if strings.HasPrefix(c, "-") {
			continue
		}
		if nameAllowed(c) || i > 20 {
			if i > 20 {
				return "a"
			}
			return c
		}
	}
}

// DirComponent is a component usable as a directory name: no ignorable extension.
func (g *G) DirComponent() string {
	for i := 0; i < 50; i++ {
		c := g.Component()
		ok := true
		for _, e := range IgnoreExts {
			if strings.Contains(c, e) {
				ok = false
			}
		}
		if ok {
			return c
		}
	}
	return "d"
}

// IgnoreFile draws the content of a .goitignore made of "name/" and "*.ext" entries.
func (g *G) IgnoreFile() []byte {
	var lines []string
	for _, d := range IgnoreDirs {
		if g.Chance(50, "ignDir") {
			lines = append(lines, d+"/")
		}
	}
	for _, e := range IgnoreExts {
		if g.Chance(50, "ignExt") {
			lines = append(lines, "*"+e)
		}
	}
	if len(lines) == 0 {
		lines = []string{"build/"}
	}

	// the order of the entries is drawn too (a rule must not depend on its position)
	for i := len(lines) - 1; i > 0; i-- {
		j := g.Int(0, i, "shuffle")
		lines[i], lines[j] = lines[j], lines[i]
	}
	if g.Chance(30, "blankLines") {
		// blank lines between the entries and at the end, as in every hand-written list
		var spaced []string
		for i, ln := range lines {
			if i > 0 && g.Bool("blankBefore") {
				spaced = append(spaced, "")
			}
			spaced = append(spaced, ln)
		}
		if g.Bool("blankAtEnd") {
			spaced = append(spaced, "")
		}
		lines = spaced
	}
	if g.Chance(8, "manyEntries") {
		// a long list (more than 4 KiB, sometimes more than 8 KiB): the entries that matter are at the top, in the middle or at the end
		n := g.Pick2([]int{400, 420, 800}, "fillers")
		filler := make([]string, 0, n)
		for i := 0; i < n; i++ {
			if i%2 == 0 {
				filler = append(filler, fmt.Sprintf("cache%04d/", i))
			} else {
				filler = append(filler, fmt.Sprintf("*.gen%04d", i))
			}
		}
		switch g.Int(0, 2, "fillerPlace") {
		case 0:
			lines = append(lines, filler...)
		case 1:
			lines = append(filler, lines...)
		default:
			lines = append(append(append([]string{}, filler[:n/2]...), lines...), filler[n/2:]...)
		}
	}
	eol := "\n"
	if g.Chance(25, "crlf") {
		eol = "\r\n" // files written on another platform
	}
	out := strings.Join(lines, eol)
	if g.Chance(80, "finalNewline") {
		out += eol
	}
	return []byte(out)
}

// conflicts reports whether path p cannot coexist with q (one is a directory prefix of the other).
func dirPrefix(p, q string) bool { return strings.HasPrefix(q, p+"/") }

// pathUsable: p does not collide with any path ever used (no file <-> directory replacement).
func (g *G) pathUsable(p string) bool {
	for q := range g.E.H.PathsEver {
		if dirPrefix(p, q) || dirPrefix(q, p) {
			return false
		}
	}
	for q := range g.E.H.EverStaged {
		if dirPrefix(p, q) || dirPrefix(q, p) {
			return false
		}
	}
	for q := range g.E.Cur.Work.Files {
		if dirPrefix(p, q) || dirPrefix(q, p) {
			return false
		}
	}
	return true
}

// knownDirs lists directories implied by every path ever used, plus "".
func (g *G) knownDirs() []string {
	set := map[string]bool{"": true}
	add := func(p string) {
		for {
			i := strings.LastIndex(p, "/")
			if i < 0 {
				return
			}
			p = p[:i]
			set[p] = true
		}
	}
	for p := range g.E.H.PathsEver {
		add(p)
	}
	for p := range g.E.Cur.Work.Files {
		add(p)
	}
	out := make([]string, 0, len(set))
	for d := range set {
		if d == ".goit" || strings.HasPrefix(d, ".goit/") {
			continue
		}
		out = append(out, d)
	}
	sort.Strings(out)
	return out
}

// hasIgnorableExtInDir: an ignorable extension occurs where "ignored" would be ambiguous: in a directory
// component, or inside a file name without being its end ("d.tmp.c"). Such names are kept out of the domain.
func hasIgnorableExtInDir(p string) bool {
	parts := strings.Split(p, "/")
	for i, c := range parts {
		stem := c
		if i == len(parts)-1 {
			// a file name may END in one ignorable extension (the longest that fits)
			best := ""
			for _, e := range IgnoreExts {
				if strings.HasSuffix(c, e) && len(e) > len(best) {
					best = e
				}
			}
			stem = strings.TrimSuffix(c, best)
		}
		for _, e := range IgnoreExts {
			if strings.Contains(stem, e) {
				return true
			}
		}
	}
	return false
}

// NewPath draws a path for a new file: an existing directory (or the root, or
// a new chain of sub-directories up to depth 4) plus a fresh component.
func (g *G) NewPath() string {
	// confusable sibling: next to an existing directory d (or file f) create d+suffix with a suffix
	// that sorts between "d" and "d/" ('-', '.', ' ', '+', '(') or right after it ('0', '_', letters)
	if g.Chance(22, "confusableSibling") {
		var stems []string
		for _, d := range g.knownDirs() {
			if d != "" {
				stems = append(stems, d)
			}
		}
		for p := range g.E.H.PathsEver {
			stems = append(stems, p)
		}
		sort.Strings(stems)
		if len(stems) > 0 {
			stem := g.Pick(stems, "stem")
			p := stem + g.Pick([]string{"-x", ".c", " b", "+", "(1)", "0", "_", "s", ".", "-", "x", "-old", "2", ".tmp", ".lock", "~", ".orig", ".new"}, "sibSuffix")
			if g.Chance(40, "siblingIsDirectory") {
				p = p + "/" + g.Component() // a sibling DIRECTORY whose name extends the stem: lib/ next to lib-old/
			}
			if !strings.HasPrefix(p, ".goit") && !g.E.H.PathsEver[p] && g.pathUsable(p) && !hasIgnorableExtInDir(p) {
				return p
			}
		}
	}
	if g.Chance(3, "longPath") {
		// a path longer than 255 bytes (its length no longer fits into one byte)
		p := strings.Repeat("m", g.Int(100, 140, "l1")) + "/" + strings.Repeat("n", g.Int(100, 140, "l2")) + "/" + g.Component()
		if !g.E.H.PathsEver[p] && g.pathUsable(p) {
			return p
		}
	}
	for try := 0; try < 30; try++ {
		dir := g.Pick(g.knownDirs(), "dir")
		depth := strings.Count(dir, "/")
		if dir != "" {
			depth++
		}
		for depth < 3 && g.Chance(30, "deeper") {
			if dir == "" {
				dir = g.DirComponent()
			} else {
				dir = dir + "/" + g.DirComponent()
			}
			depth++
		}
		p := g.Component()
		if dir != "" {
			p = dir + "/" + p
		}
		if p == ".goitignore" || strings.HasPrefix(p, ".goit") {
			continue
		}
		if g.E.H.PathsEver[p] || !g.pathUsable(p) || hasIgnorableExtInDir(p) {
			continue
		}
		return p
	}
	// fall back to a numbered name that cannot collide
	return fmt.Sprintf("f%d", len(g.E.H.PathsEver))
}

// ---------------------------------------------------------------- contents

// boundarySizes: lengths around internal buffer sizes of the compression, hashing and line-reading code
var boundarySizes = []int{255, 256, 257, 4095, 4096, 4097, 8192, 32767, 32768, 32769, 65535, 65536, 65537, 131072}

func (g *G) Content() []byte {
	if g.Chance(5, "boundarySize") {
		n := g.Pick2(boundarySizes, "size")
		if g.Bool("compressible") {
			return []byte(strings.Repeat("z", n))
		}
		return pseudoRandom(uint32(g.Int(1, 1<<30, "seed")), n)
	}
	switch g.Weighted([]int{40, 10, 10, 10, 6, 6, 3}, "contentClass") {
	case 0:
		return []byte(rapid.StringMatching(`[a-z ]{0,12}\n?`).Draw(g.T, "text"))
	case 1:
		return []byte{}
	case 2:
		return rapid.SliceOfN(rapid.Byte(), 1, 40).Draw(g.T, "bytes")
	case 3:
		return []byte(g.Pick([]string{"blob 3\x00abc", "12 ", " 7", "tree 0\x00", "commit 10\x00", "\x00", "\n\n", "100644 a\x00", "0", "blob"}, "headerish") + rapid.StringMatching(`[a-z]{0,4}`).Draw(g.T, "tail"))
	case 4:
		return []byte(strings.Repeat(g.Pick([]string{"a", "ab\n", "\x00"}, "unit"), g.Int(100, 5000, "runs")))
	case 5:
		n := g.Int(200, 3000, "n")
		seed := uint32(g.Int(1, 1<<30, "seed"))
		return pseudoRandom(seed, n)
	default:
		n := g.Int(40_000, 200_000, "big")
		seed := uint32(g.Int(1, 1<<30, "seed"))
		return pseudoRandom(seed, n)
	}
}

// pseudoRandom expands a drawn seed into incompressible bytes (xorshift; the
// seed is the random choice, so replay and shrinking stay exact).
func pseudoRandom(seed uint32, n int) []byte {
	out := make([]byte, n)
	x := seed | 1
	for i := range out {
		x ^= x << 13
		x ^= x >> 17
		x ^= x << 5
		out[i] = byte(x >> 11)
	}
	return out
}

// SmallContent is for profiles where content only needs to differ.
func (g *G) SmallContent() []byte {
	if g.Chance(8, "empty") {
		return []byte{}
	}
	return []byte(rapid.StringMatching(`[a-z0-9]{1,6}\n?`).Draw(g.T, "small"))
}

// ---------------------------------------------------------------- messages, identities

func (g *G) Message(hostile bool) string {
	plain := rapid.StringMatching(`[a-zA-Z0-9]{1,8}( [a-z]{1,6}){0,3}`)
	if !hostile || g.Chance(35, "plainmsg") {
		return plain.Draw(g.T, "msg")
	}
	m := ""
	switch g.Int(-6, 7, "msgClass") {
	case -5:
		// lines that look like the header fields of a commit object, quoting ids of existing objects
		n := g.Int(0, 5, "quoted")
		m = g.Pick([]string{
			fmt.Sprintf("tree {{tree#%d}}", n),
			fmt.Sprintf("revert\n\ntree {{tree#%d}}\nparent {{commit#%d}}", n, n),
			fmt.Sprintf("parent {{commit#%d}}", n),
			fmt.Sprintf("see\ntree {{tree#%d}}", n),
			"author A U Thor <author@example.com> 1700000000 +0000",
			"note\n\ncommitter C O Mitter <c@example.com> 1 -0100\nauthor nobody",
			"tree of life", "parent and child", "author unknown words", "committer x",
			"tree 0000000000000000000000000000000000000000",
		}, "headerLike")
	case -6:
		m = g.Pick([]string{"subject\r\n\r\nbody line\r\n", "trailing cr\r", "lone\rcr inside", "a\r\nb", "\r\n", "\r", "x\n\r\ny"}, "cr")
	case -3:
		m = g.Pick([]string{"raise coverage to 100% of cmd", "%s %d %v", "100%", "%!s(MISSING)", "50%% done", "a %[1]d b", "%"}, "percent")
	case -2:
		m = g.Pick([]string{`back\slash \n`, `"quoted" 'single'`, "$HOME `id` $(x)", "a;b|c&d", "<tag> & more", "{braces} [brackets]", "#hash ~tilde ^caret", "-leading dash", "--amend"}, "punct")
	case -4:
		m = g.Pick([]string{"\nleading line break then three words\nmore: text here", "\n", "\n\n  indented after blank lines", "\nx", "one\n\n\n\nfour blank lines then a b c d"}, "leadingNL")
	case -1:
		m = plain.Draw(g.T, "m") + g.Pick([]string{" %", " \\", " \"", " '", " $", " !"}, "tailch")
	case 0:
		m = "fix: " + plain.Draw(g.T, "m")
	case 1:
		m = plain.Draw(g.T, "m") + "\tafter tab"
	case 2:
		m = plain.Draw(g.T, "m") + "\n\n" + "body line of three words\nsecond: line"
	case 3:
		m = "a: b: c"
	case 4:
		m = "  leading and trailing  "
	case 5:
		m = "ünï çödé: 日本語"
	case 6:
		// a long line: lengths around internal buffer sizes (4096, 8192) and arbitrary ones up to ~10 KiB
		n := g.Int(1, 10000, "long")
		if g.Bool("nearBoundary") {
			// 65536 is the line limit of a default bufio.Scanner; one argument can be at most 128 KiB long
			n = g.Pick2([]int{4095, 4096, 4097, 8191, 8192, 8193, 4000, 5000, 65535, 65536, 65537, 70000, 130000}, "boundaryLen")
		}
		if g.Bool("longFirstLine") {
			m = strings.Repeat("y", n)
		} else {
			m = plain.Draw(g.T, "m") + "\n" + strings.Repeat("x", n) + "\ntail"
		}
	default:
		m = "commit: reset: moving to HEAD@{1}"
	}
	if findings.Open("reflog-message-split") && (strings.Contains(m, ": ") || strings.Contains(m, "\t") || strings.Contains(m, "\n")) {
		stats.Excluded("reflog-message-split")
		return plain.Draw(g.T, "msg2")
	}
	return m
}

func (g *G) UserName() string {
	if g.Chance(2, "longName") {
		// a value longer than the line limit of a default bufio.Scanner
		return "L" + strings.Repeat("n", g.Pick2([]int{65530, 65536, 70000}, "nameLen")) + " end"
	}
	// printable UTF-8 without '<' and line breaks; inner single spaces; not starting with '-' (it is a CLI argument)
	if g.Chance(15, "awkwardName") {
		// printable names that a line-oriented reader or a "name <mail> time" splitter may cut in the wrong place
		return g.Pick([]string{"dev -> ops", "a > b", "Team => Ops", "Ada Tester #2", "x ;y", "#lead", "; semi", "a = b", "[x]", "the [boss]", "name]", "[name",
			"x> y", `CORP\tom`, `ACME\nina`, `C:\tools\new`, `a\\b`, "\"Ann Lee\"", "\"G\"", "'q'", "mail@like.this", "1700000000 +0900", "tree", "commit: x", "a: b", "reset: moving to HEAD@{1}", "%s", "100%"}, "awkward")
	}
	return rapid.StringMatching(`[A-Za-zé日%$&(#;][A-Za-z0-9é日.'%$&*",;!?@\[\]{}|~^+_/\\:=#)>-]{0,8}( [A-Za-z(%#;>][A-Za-z0-9)>:=#%&*!]{0,6}){0,2}`).Draw(g.T, "uname")
}

func (g *G) Email() string {
	return rapid.StringMatching(`[a-zA-Z0-9_][a-zA-Z0-9_.+-]{0,14}@[a-zA-Z0-9]([a-zA-Z0-9-]{0,10}[a-zA-Z0-9])?(\.[a-z0-9]{1,9}){0,3}\.[a-zA-Z]{2,14}`).Draw(g.T, "email")
}

// BranchName draws from a small pool whose members are prefixes of each other.
var branchPool = []string{"main", "a", "b", "a.b", "ab", "a-b", "dev", "b_1", "B", "main2", "ma", "z.9", ".wip", "b.", ".a", "_", "0", "a.tmp", "main.tmp", "b.lock", "a~", "w", "w ", " w", "Main", "HEAD", "W", "head", "Head",
	// the longest names a file system takes (255 bytes), and a name that is a 240-byte prefix of one of them
	strings.Repeat("L", 240), strings.Repeat("L", 240) + "-abcdefghijklmn", strings.Repeat("L", 254) + "x"}

func (g *G) BranchName() string { return g.Pick(branchPool, "branch") }

// OtherBranch picks an existing branch different from HEAD's ("" if none).
func (g *G) OtherBranch() string {
	var xs []string
	for _, n := range g.E.Cur.BranchNames() {
		if n != g.E.Cur.HeadBr {
			xs = append(xs, n)
		}
	}
	if len(xs) == 0 {
		return ""
	}
	return g.Pick(xs, "otherBranch")
}

// FreeBranch picks a pool name that is not a branch yet ("" if none).
func (g *G) FreeBranch() string {
	var xs, related []string
	for _, n := range branchPool {
		if _, ok := g.E.Cur.Branches[n]; ok {
			continue
		}
		xs = append(xs, n)
		// names that are variants of an existing branch name: other case, blanks at the ends, a prefix, a suffix
		for e := range g.E.Cur.Branches {
			a, b := strings.ToLower(strings.TrimSpace(n)), strings.ToLower(strings.TrimSpace(e))
			if a == b || strings.HasPrefix(a, b) || strings.HasPrefix(b, a) {
				related = append(related, n)
				break
			}
		}
	}
	// names derived from the branch HEAD is on: what a temporary or lock file of its branch file would be called,
	// and the name without such a suffix
	if h := g.E.Cur.HeadBr; h != "" && len(h) < 40 {
		var derived []string
		// ({{commit#0}} / {{tree#n}}: a branch whose NAME is the 40-digit id of a stored object)
		for _, d := range []string{h + ".tmp", h + ".lock", h + "~", strings.TrimSuffix(h, ".tmp"), strings.TrimSuffix(h, ".lock"), "{{commit#0}}", fmt.Sprintf("{{tree#%d}}", len(g.E.H.Order))} {
			if _, ok := g.E.Cur.Branches[d]; !ok && d != "" && d != h {
				derived = append(derived, d)
			}
		}
		pct := 15
		if g.E.P != nil && g.E.P.ID == "C14" {
			pct = 50 // the log profile has few branch operations: make each of them count
		}
		if len(derived) > 0 && g.Chance(pct, "derivedFromHead") {
			return g.Pick(derived, "derivedBranch")
		}
	}
	if len(xs) == 0 {
		return ""
	}
	if len(related) > 0 && g.Chance(45, "relatedBranchName") {
		return g.Pick(related, "relatedBranch")
	}
	return g.Pick(xs, "freeBranch")
}

// ---------------------------------------------------------------- state helpers

func (g *G) WorkFiles() []string {
	var xs []string
	for _, p := range g.E.Cur.Work.Paths() {
		if p == ".goitignore" {
			continue
		}
		xs = append(xs, p)
	}
	return xs
}

// WorkDirs lists directories that currently exist in the working tree.
func (g *G) WorkDirs() []string {
	var xs []string
	for d := range g.E.Cur.Work.Dirs {
		xs = append(xs, d)
	}
	sort.Strings(xs)
	return xs
}

// TrackedDirs lists every directory prefix of a tracked path.
func trackedDirs(paths []string) []string {
	set := map[string]bool{}
	for _, p := range paths {
		for {
			i := strings.LastIndex(p, "/")
			if i < 0 {
				break
			}
			p = p[:i]
			set[p] = true
		}
	}
	out := make([]string, 0, len(set))
	for d := range set {
		out = append(out, d)
	}
	sort.Strings(out)
	return out
}

func under(dir, p string) bool { return strings.HasPrefix(p, dir+"/") }

func sortedKeys(m map[string]string) []string {
	ks := make([]string, 0, len(m))
	for k := range m {
		ks = append(ks, k)
	}
	sort.Strings(ks)
	return ks
}

func sortedSet(m map[string]bool) []string {
	ks := make([]string, 0, len(m))
	for k := range m {
		ks = append(ks, k)
	}
	sort.Strings(ks)
	return ks
}
