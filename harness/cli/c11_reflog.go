package cli

import (
	"fmt"
	"strings"

	"github.com/JunNishimura/Goit/verifharness/core/gitfmt"
	"github.com/JunNishimura/Goit/verifharness/core/stats"
)

// C11 — the reflog is a faithful, append-only journal that always reads back.
// C14 — log lists the history reachable from HEAD, newest first, bounded by -n.

func readReflog(c *Ctx) ([]ReflogEntry, error) {
	r := c.Goit("reflog")
	if r.Panic || r.Timeout || r.Exit != 0 {
		return nil, fmt.Errorf("reflog failed although a log exists: %s", r)
	}
	return ParseReflog(r.Stdout)
}

func beforeJournal(c *Ctx) error {
	if c.Step.Op != "goit" || c.Pre.Goit.Files["logs/HEAD"] == "" {
		return nil
	}
	es, err := readReflog(c)
	if err != nil {
		return err
	}
	c.Tmp["journal"] = es
	return nil
}

func sameEntry(a, b ReflogEntry) bool { return a.ID == b.ID && a.Kind == b.Kind && a.Text == b.Text }

func oracleJournal(c *Ctx) error {
	if c.Step.Op != "goit" || c.Post.Goit.Files["logs/HEAD"] == "" {
		return nil
	}
	if c.Res.Panic || c.Res.Timeout {
		return fmt.Errorf("%s crashed or hung: %s", c.Step, c.Res)
	}
	old, _ := c.Tmp["journal"].([]ReflogEntry)
	cur, err := readReflog(c)
	if err != nil {
		return fmt.Errorf("after %s: %v", c.Step, err)
	}
	sub := c.Step.Args[0]
	kind := ""
	if c.Res.Exit == 0 {
		switch sub {
		case "commit":
			kind = "commit"
		case "switch":
			kind = "checkout"
		case "reset":
			kind = "reset"
		}
	}
	if sub == "reset" && c.Res.Exit != 0 && c.Step.Note != "invalid" {
		// reset and reflog must resolve every displayed position: a position reflog lists cannot be refused
		_, rest, multi := resetModeOf(c.Step.Args)
		if !multi && len(rest) == 1 {
			if m := resetArgRe.FindStringSubmatch(rest[0]); m != nil {
				var n int
				if _, err := fmt.Sscanf(m[1], "%d", &n); err == nil && n < len(old) {
					return fmt.Errorf("reflog displays %d entries but reset %s is refused: %s", len(old), rest[0], c.Res)
				}
			}
		}
	}
	isRename := sub == "branch" && c.Res.Exit == 0 && len(c.Step.Args) > 1 && (c.Step.Args[1] == "-r" || c.Step.Args[1] == "--rename")
	switch {
	case kind != "":
		k := len(cur) - len(old)
		if k < 1 {
			return fmt.Errorf("successful %s added no reflog entry (%d -> %d entries)", sub, len(old), len(cur))
		}
		head := c.Post.HeadCommit()
		if !strings.HasPrefix(head, cur[0].ID) {
			return fmt.Errorf("after %s, HEAD resolves to %s but reflog shows %s at HEAD@{0}", sub, head, cur[0].ID)
		}
		if cur[0].Kind != kind {
			return fmt.Errorf("after %s, HEAD@{0} has kind %q, want %q", sub, cur[0].Kind, kind)
		}
		for i := range old {
			if !sameEntry(old[i], cur[i+k]) {
				return fmt.Errorf("after %s, earlier entry %d (%v) did not merely shift by %d: now %v", sub, i, old[i], k, cur[i+k])
			}
		}
		if sub == "reset" {
			// reset and reflog resolve position n to the same entry
			_, rest, _ := resetModeOf(c.Step.Args)
			if len(rest) == 1 {
				if m := resetArgRe.FindStringSubmatch(rest[0]); m != nil {
					var n int
					fmt.Sscanf(m[1], "%d", &n)
					if n < len(old) && !strings.HasPrefix(head, old[n].ID) {
						return fmt.Errorf("reset HEAD@{%d} moved HEAD to %s, reflog displayed %s at that position", n, head, old[n].ID)
					}
					stats.Label("journal:reset-agreement")
				}
			}
		}
	case isRename:
		k := len(cur) - len(old)
		if k < 0 {
			return fmt.Errorf("rename shortened the reflog")
		}
		for i := range old {
			if !sameEntry(old[i], cur[i+k]) {
				return fmt.Errorf("after rename, earlier entry %d (%v) changed: now %v", i, old[i], cur[i+k])
			}
		}
	default:
		if len(cur) != len(old) {
			return fmt.Errorf("%s (exit %d) changed the number of reflog entries: %d -> %d", c.Step, c.Res.Exit, len(old), len(cur))
		}
		for i := range old {
			if !sameEntry(old[i], cur[i]) {
				return fmt.Errorf("%s changed reflog entry %d: %v -> %v", c.Step, i, old[i], cur[i])
			}
		}
	}
	kinds := map[string]bool{}
	for _, e := range cur {
		kinds[e.Kind] = true
	}
	hostileMsg := false
	if sub == "commit" {
		m := commitMessageArg(c.Step.Args)
		hostileMsg = strings.Contains(m, ": ") || strings.Contains(m, "\t") || strings.Contains(m, "\n")
	}
	stats.LabelIf(hostileMsg, "journal:hostile-message")
	stats.LabelIf(isRename, "journal:after-rename")
	stats.LabelIf(c.H.TZMin < 0, "journal:negative-offset")
	if len(cur) >= 3 && len(kinds) >= 2 || hostileMsg || isRename {
		var ks []string
		for _, e := range cur {
			ks = append(ks, e.Kind)
		}
		stats.Nontrivial(strings.Join(ks, ",") + fmt.Sprintf("#%v#%v", hostileMsg, isRename))
	}
	return nil
}

var profJournal = register(&Profile{
	ID: "C11", Name: "journal",
	Oracles: []Oracle{{Name: "journal", Before: beforeJournal, After: oracleJournal}},
})

func init() {
	ops = append(ops, opGen{"identity-hostile", always, func(g *G) Step {
		// the identity is written into every journal line in front of the tab that ends it
		v := g.Pick([]string{"Tab\tName", "a\tcommit: b", "x\t", "commit: x", "Colon: Name", "reset: moving to HEAD@{1}", "Name  Two", "0000000000000000000000000000000000000000 x",
			"a > b", "x> y", "1700000000 +0900", "é日本", "checkout: moving from a to b"}, "hostileIdentity")
		args := []string{"config"}
		if g.Bool("global") {
			args = append(args, "--global")
		}
		return goit(append(args, "user.name", v)...)
	}})
}

var journalWeights = Weights{"commit-repeat-message": 3, "identity-hostile": 3, "write-new": 14, "modify": 10, "add": 18, "commit": 22, "switch": 8, "switch-c": 6, "reset": 12, "reset-invalid": 2,
	"branch": 4, "branch-r": 5, "branch-d": 4, "tz": 3, "rm": 2}

// ---------------------------------------------------------------- C14

// chain follows first parents from a commit using the independent decoder.
func chain(o *Obs, id string, max int) ([]*gitfmt.Commit, error) {
	var out []*gitfmt.Commit
	seen := map[string]bool{}
	for id != "" && len(out) < max && !seen[id] {
		seen[id] = true
		cm, err := gitfmt.ReadCommit(o.Store, id)
		if err != nil {
			return nil, err
		}
		out = append(out, cm)
		if len(cm.Parents) == 0 {
			break
		}
		id = cm.Parents[0]
	}
	return out, nil
}

func oracleLog(c *Ctx) error {
	if !c.IsGoit("log") {
		return nil
	}
	if c.Res.Panic || c.Res.Timeout {
		return fmt.Errorf("log crashed or hung: %s", c.Res)
	}
	head := c.Pre.HeadCommit()
	if head == "" {
		return nil
	}
	k := 5
	hasN := false
	for i, a := range c.Step.Args {
		if (a == "-n" || a == "--max-count") && i+1 < len(c.Step.Args) {
			fmt.Sscanf(c.Step.Args[i+1], "%d", &k)
			hasN = true
		}
	}
	if k < 0 {
		return nil
	}
	full, err := chain(c.Pre, head, 1<<30)
	if err != nil {
		return nil
	}
	want := full
	if len(want) > k {
		want = want[:k]
	}
	if c.Res.Exit != 0 {
		return fmt.Errorf("log failed: %s", c.Res)
	}
	blocks, err := ParseLog(c.Res.Stdout)
	if err != nil {
		return fmt.Errorf("%v\noutput:\n%s", err, c.Res.Stdout)
	}
	if len(blocks) != len(want) {
		return fmt.Errorf("log -n %d on a chain of %d commits printed %d commits, want %d", k, len(full), len(blocks), len(want))
	}
	for i, b := range blocks {
		w := want[i]
		if b.ID != w.ID {
			return fmt.Errorf("log position %d is %s, the parent chain from HEAD has %s there", i, b.ID, w.ID)
		}
		if b.Author != w.Author.Name+" <"+w.Author.Email+">" {
			return fmt.Errorf("log shows author %q for %s, the commit records %q <%s>", b.Author, w.ID, w.Author.Name, w.Author.Email)
		}
		if strings.TrimRight(b.Message, "\n") != strings.TrimRight(w.Message, "\n") {
			return fmt.Errorf("log shows message %q for %s, the commit records %q", b.Message, w.ID, w.Message)
		}
	}
	if d := sbxDiffAll(c); d != "" {
		return fmt.Errorf("log modified the repository: %s", d)
	}
	// the listing depends only on the commit graph: same HEAD commit and k => byte-identical output
	key := fmt.Sprintf("log#%s#%d", head, k)
	if prev, ok := c.H.Data[key].(string); ok {
		stats.Label("log:repeat-after-unrelated-changes")
		if prev != c.Res.Stdout {
			return fmt.Errorf("log output for the same HEAD commit and -n changed after unrelated operations:\nbefore:\n%s\nafter:\n%s", prev, c.Res.Stdout)
		}
	}
	c.H.Data[key] = c.Res.Stdout
	hasReset := false
	for _, st := range c.H.Data["steps"].([]string) {
		if st == "reset" {
			hasReset = true
		}
	}
	stats.LabelIf(hasN, "log:with-n")
	stats.LabelIf(k == 0, "log:n=0")
	stats.LabelIf(hasN && k == len(full), "log:n=len")
	stats.LabelIf(hasN && k > len(full), "log:n>len")
	stats.LabelIf(hasReset, "log:history-with-reset")
	stats.LabelIf(len(full) >= 10, "log:len>=10")
	if len(full) >= 3 && hasN || hasReset {
		stats.Nontrivial(fmt.Sprintf("%d#%d#%v#%d", len(full), k, hasReset, len(c.Pre.Branches)))
	}
	return nil
}

func sbxDiffAll(c *Ctx) string {
	if err := unchangedAll(c, "read-only command"); err != nil {
		return err.Error()
	}
	return ""
}

func trackSubcommands(c *Ctx) error {
	xs, _ := c.H.Data["steps"].([]string)
	if c.Step.Op == "goit" && c.Res.Exit == 0 {
		xs = append(xs, c.Step.Args[0])
	}
	c.H.Data["steps"] = xs
	return nil
}

var profLog = register(&Profile{
	ID: "C14", Name: "log",
	Oracles: []Oracle{{Name: "track", After: trackSubcommands}, {Name: "log-exact", After: oracleLog}},
})

func init() {
	ops = append(ops, opGen{"log", hasCommit, func(g *G) Step {
		n, _ := chain(g.E.Cur, g.E.Cur.HeadCommit(), 1<<30)
		l := len(n)
		ks := []int{0, 1, 2, l - 1, l, l + 1, 1000, 5, 6, 4, 1 << 31, 1 << 62, 9223372036854775807}
		i := g.Int(-1, len(ks)-1, "k")
		if i < 0 {
			return goit("log")
		}
		k := ks[i]
		if k < 0 {
			k = 0
		}
		return goit("log", "-n", fmt.Sprint(k))
	}})
}

func init() {
	ops = append(ops, opGen{"switch-c-linebreak", hasCommit, func(g *G) Step {
		// Goit accepts a line break in a branch name; the line-oriented listings (branch --list, reflog) cannot show
		// such a name, which is why only the log profile uses it: the chain that log follows starts at HEAD's branch
		n := g.E.Cur.HeadBr + "\n" + g.Pick([]string{"next", "x"}, "tail")
		if strings.Contains(g.E.Cur.HeadBr, "\n") || g.E.Cur.HeadBr == "" {
			n = "lb\nnext"
		}
		if _, ok := g.E.Cur.Branches[n]; ok {
			return goit("switch", n)
		}
		return goit("switch", "-c", n)
	}})
}

func init() {
	ops = append(ops, opGen{"odd-ignore-file", always, func(g *G) Step {
		// "not on the working tree": an ignore list with a very long line, or a DIRECTORY named .goitignore, is
		// working-tree content like any other and must not change (or prevent) the listing
		if g.Bool("asDirectory") && !hasFile(g.E.Cur, ".goitignore") {
			return Step{Op: "write", Path: ".goitignore/inner", Data: []byte("x")}
		}
		if g.E.Cur.Work.Dirs[".goitignore"] {
			return Step{Op: "write", Path: ".goitignore/more", Data: []byte("y")}
		}
		return Step{Op: "write", Path: ".goitignore", Data: []byte("build/\n*." + strings.Repeat("x", g.Pick2([]int{65530, 65536, 70000}, "lineLen")) + "\n")}
	}})
}

var logWeights = Weights{"odd-ignore-file": 2, "switch-c-linebreak": 2, "write-new": 10, "modify": 16, "add": 22, "commit": 26, "log": 18, "reset": 6, "switch": 6, "switch-c": 5, "branch": 5, "update-ref": 2, "tz": 1}
