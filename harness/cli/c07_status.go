package cli

import (
	"fmt"
	"strings"

	"github.com/JunNishimura/Goit/verifharness/core/sbx"
	"github.com/JunNishimura/Goit/verifharness/core/stats"
)

// C07 — the staged-changes report is exact, and committing nothing is refused.
// C13 — the working-tree report is exact and content-based.

// expectedStaged compares the staging area with the HEAD snapshot.
func expectedStaged(o *Obs) (map[string]string, error) {
	hs, err := o.HeadSnapshot()
	if err != nil {
		return nil, err
	}
	exp := map[string]string{}
	for p, id := range o.IdxMap {
		if hid, ok := hs[p]; !ok {
			exp[p] = "new file"
		} else if hid != id {
			exp[p] = "modified"
		}
	}
	for p := range hs {
		if _, ok := o.IdxMap[p]; !ok {
			exp[p] = "deleted"
		}
	}
	return exp, nil
}

func checkStagedReport(c *Ctx, o *Obs, when string) error {
	exp, err := expectedStaged(o)
	if err != nil {
		return nil // HEAD snapshot unreadable: not this property's business
	}
	r := c.Goit("status")
	if r.Panic || r.Timeout || r.Exit != 0 {
		return fmt.Errorf("%s: status failed: %s", when, r)
	}
	rep, err := ParseStatus(r.Stdout)
	if err != nil {
		return fmt.Errorf("%s: %v", when, err)
	}
	if len(rep.Dups) > 0 {
		return fmt.Errorf("%s: status lists %q more than once", when, rep.Dups)
	}
	if d := mapDiffPlain(exp, rep.Staged); len(d) > 0 {
		return fmt.Errorf("%s: 'Changes to be committed' is not exactly the difference between staging area and HEAD snapshot: %v\nstatus output:\n%s", when, d, r.Stdout)
	}
	if (len(exp) == 0) != !strings.Contains(r.Stdout, hdrStaged) {
		return fmt.Errorf("%s: section header presence does not match (expected %d staged changes)", when, len(exp))
	}
	kinds := map[string]bool{}
	for _, k := range exp {
		kinds[k] = true
	}
	fam := hasBetweenSibling(append(o.Tracked(), keysOfSnapshot(o)...))
	stats.LabelIf(len(exp) > 0, "staged-diff:non-empty")
	stats.LabelIf(fam, "names:between-sibling-family")
	if len(kinds) >= 2 || fam {
		hs, _ := o.HeadSnapshot()
		stats.Nontrivial(mustJSON(hs) + "#" + mustJSON(o.IdxMap))
	}
	return nil
}

func keysOfSnapshot(o *Obs) []string {
	hs, err := o.HeadSnapshot()
	if err != nil {
		return nil
	}
	return sortedKeys(hs)
}

func mapDiffPlain(want, got map[string]string) []string {
	var out []string
	for _, k := range sortedKeys(want) {
		if g, ok := got[k]; !ok {
			out = append(out, fmt.Sprintf("missing %s %q", want[k], k))
		} else if g != want[k] {
			out = append(out, fmt.Sprintf("%q reported as %s, is %s", k, g, want[k]))
		}
	}
	for _, k := range sortedKeys(got) {
		if _, ok := want[k]; !ok {
			out = append(out, fmt.Sprintf("phantom %s %q", got[k], k))
		}
	}
	return out
}

func oracleStagedReport(c *Ctx) error {
	if c.Step.Op != "goit" || !c.Post.HasGoit {
		return nil
	}
	if c.Res.Panic || c.Res.Timeout {
		return fmt.Errorf("%s crashed or hung: %s", c.Step, c.Res)
	}
	switch c.Step.Args[0] {
	case "add", "rm", "restore", "reset", "commit", "switch", "update-ref":
	default:
		return nil
	}
	if c.Post.Index == nil {
		return nil
	}
	if err := checkStagedReport(c, c.Post, "after "+joinArgs(c.Step.Args)); err != nil {
		return err
	}
	return nil
}

func oracleCommitNecessity(c *Ctx) error {
	if !c.IsGoit("commit") {
		return nil
	}
	exp, err := expectedStaged(c.Pre)
	if err != nil {
		return nil
	}
	if len(exp) == 0 {
		// nothing staged relative to HEAD: refused as "nothing to commit", no side effects
		stats.Label("commit:refused-empty")
		stats.Nontrivial("refuse#" + mustJSON(c.Pre.IdxMap))
		if c.Res.Exit != 1 || c.Res.Panic {
			return fmt.Errorf("commit with a staging area equal to the HEAD snapshot was not refused: %s", c.Res)
		}
		if !strings.Contains(c.Res.Stderr+c.Res.Stdout, "nothing to commit") {
			return fmt.Errorf("refused commit does not say 'nothing to commit': %s", c.Res)
		}
		return unchangedAll(c, "commit was refused")
	}
	// conversely, any staged difference makes commit succeed
	if c.Res.Exit != 0 {
		return fmt.Errorf("commit with %d staged differences %v failed: %s", len(exp), exp, c.Res)
	}
	// immediately after a successful commit nothing is staged relative to HEAD
	after, err := expectedStaged(c.Post)
	if err == nil && len(after) != 0 {
		return fmt.Errorf("after a successful commit the staging area still differs from the new HEAD snapshot: %v", after)
	}
	return nil
}

var profDiff = register(&Profile{
	ID: "C07", Name: "diff",
	Oracles: []Oracle{{Name: "commit-necessity", After: oracleCommitNecessity}, {Name: "staged-report", After: oracleStagedReport}},
})

var diffWeights = Weights{"ignore-more": 2, "dir-at-unstaged-file": 3, "file-at-unstaged-dir": 3, "dir2file": 2, "file2dir": 2, "write-new": 20, "modify": 14, "remove-file": 8, "rmdir": 3, "recreate": 3, "add": 28, "rm": 8, "commit": 18,
	"restore-staged": 6, "reset": 5, "switch-c": 2, "switch": 2, "copydir": 4, "revert": 5, "recreate-unstaged": 3}

// ---------------------------------------------------------------- C13

// ignoredBy mirrors the documented meaning of .goitignore entries in the
// generated domain: "name/" excludes everything beneath that directory
// (anywhere in the tree), "*.ext" excludes files with that extension.
func ignoredBy(lines []string, p string) bool { return ignoreClass(lines, p) == "ignored" }

// ignoreClass: "ignored" when an entry excludes p by its documented meaning; "unspecified" when an
// extension of a *.ext entry occurs in p elsewhere than at the end of the file name (Goit's patterns
// are not anchored at their end, the statement does not say what happens then); "no" otherwise.
func ignoreClass(lines []string, p string) string {
	class := "no"
	parts := strings.Split(p, "/")
	for _, ln := range lines {
		if ln == "" {
			continue
		}
		if strings.HasSuffix(ln, "/") {
			d := strings.TrimSuffix(ln, "/")
			for _, c := range parts[:len(parts)-1] {
				if c == d {
					return "ignored"
				}
			}
		} else if ln == ".*" {
			for _, c := range parts {
				if strings.HasPrefix(c, ".") {
					class = "unspecified"
				}
			}
		} else if strings.HasPrefix(ln, "*.") {
			ext := ln[1:]
			if strings.HasSuffix(parts[len(parts)-1], ext) {
				return "ignored"
			}
			if strings.Contains(p, ext) {
				class = "unspecified"
			}
		}
	}
	return class
}

func ignoreLines(o *Obs) []string {
	s, ok := o.Work.Files[".goitignore"]
	if !ok {
		return nil
	}
	var out []string
	for _, ln := range strings.Split(s, "\n") {
		ln = strings.TrimSuffix(ln, "\r")
		if ln != "" {
			out = append(out, ln)
		}
	}
	return out
}

func checkWorktreeReport(c *Ctx, o *Obs, when string) (string, error) {
	ign := ignoreLines(o)
	expUn := map[string]string{}
	expUntracked := map[string]bool{}
	for p, id := range o.IdxMap {
		content, ok := o.Work.Files[p]
		if !ok {
			expUn[p] = "deleted"
		} else if blobID(content) != id {
			expUn[p] = "modified"
		}
	}
	unspecified := map[string]bool{}
	for p := range o.Work.Files {
		if _, tracked := o.IdxMap[p]; !tracked {
			switch ignoreClass(ign, p) {
			case "no":
				expUntracked[p] = true
			case "unspecified":
				unspecified[p] = true
			}
		}
	}
	r := c.Goit("status")
	if r.Panic || r.Timeout || r.Exit != 0 {
		return "", fmt.Errorf("%s: status failed: %s", when, r)
	}
	rep, err := ParseStatus(r.Stdout)
	if err != nil {
		return "", fmt.Errorf("%s: %v", when, err)
	}
	if len(rep.Dups) > 0 {
		return "", fmt.Errorf("%s: status lists %q more than once", when, rep.Dups)
	}
	if d := mapDiffPlain(expUn, rep.Unstaged); len(d) > 0 {
		return "", fmt.Errorf("%s: 'Changes not staged for commit' is wrong: %v\nstatus output:\n%s", when, d, r.Stdout)
	}
	gotU := map[string]string{}
	for p := range rep.Untracked {
		if !unspecified[p] {
			gotU[p] = "untracked"
		}
	}
	wantU := map[string]string{}
	for p := range expUntracked {
		wantU[p] = "untracked"
	}
	if d := mapDiffPlain(wantU, gotU); len(d) > 0 {
		return "", fmt.Errorf("%s: 'Untracked files' is wrong: %v\nstatus output:\n%s", when, d, r.Stdout)
	}
	nsets := 0
	mod, del := false, false
	for _, k := range expUn {
		if k == "modified" {
			mod = true
		} else {
			del = true
		}
	}
	for _, b := range []bool{mod, del, len(expUntracked) > 0} {
		if b {
			nsets++
		}
	}
	stats.LabelIf(mod, "worktree:modified")
	stats.LabelIf(del, "worktree:deleted")
	stats.LabelIf(len(expUntracked) > 0, "worktree:untracked")
	stats.LabelIf(len(ign) > 0, "worktree:with-goitignore")
	if nsets >= 2 {
		stats.Nontrivial(mustJSON(o.IdxMap) + "#" + strings.Join(o.Work.Paths(), "|") + "#" + strings.Join(ign, ","))
	}
	return r.Stdout, nil
}

func oracleWorktreeReport(c *Ctx) error {
	if c.Step.Op == "goit" && (c.Res.Panic || c.Res.Timeout) {
		// a crashed command reports nothing (and the history this profile needs may never come about)
		return fmt.Errorf("%s crashed or hung: %s", c.Step, c.Res)
	}
	if !c.Post.HasGoit || c.Post.HeadCommit() == "" || c.Post.Index == nil {
		return nil // after at least one commit
	}
	if c.Step.Op == "goit" {
		switch c.Step.Args[0] {
		case "add", "rm", "restore", "reset", "commit":
		default:
			return nil
		}
	}
	out, err := checkWorktreeReport(c, c.Post, "after "+c.Step.String())
	if err != nil {
		return err
	}
	// metamorphic: rewriting a file with identical bytes, or touching it, changes nothing in the report
	if prev, ok := c.H.Data["lastStatus"].(string); ok && (c.Step.Op == "touch" || c.Step.Note == "identical") {
		stats.Label("worktree:identical-rewrite-or-touch")
		stats.Nontrivial("meta#" + c.Step.Path + "#" + mustJSON(c.Post.IdxMap))
		if prev != out {
			return fmt.Errorf("status output changed after %s although no byte of any file changed:\nbefore:\n%s\nafter:\n%s", c.Step, prev, out)
		}
	}
	c.H.Data["lastStatus"] = out
	return nil
}

var profWorktree = register(&Profile{
	ID: "C13", Name: "worktree",
	Oracles: []Oracle{{Name: "worktree-report", After: oracleWorktreeReport}},
})

var worktreeWeights = Weights{"dir-at-unstaged-file": 3, "file-at-unstaged-dir": 3, "dir2file": 4, "file2dir": 4, "ignore-more": 3, "write-new": 18, "modify": 14, "rewrite-same": 8, "touch": 8, "remove-file": 10, "rmdir": 5, "recreate": 4,
	"add": 16, "rm": 4, "commit": 6, "restore": 3, "reset": 3, "revert": 6, "recreate-unstaged": 5}

var _ = sbx.Diff
