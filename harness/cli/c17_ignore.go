package cli

import (
	"fmt"
	"strings"

	"github.com/JunNishimura/Goit/verifharness/core/sbx"
	"github.com/JunNishimura/Goit/verifharness/core/stats"
)

// C17 — Goit's own directory and ignored paths never enter the staging area.

func insideGoit(p string) bool { return p == ".goit" || strings.HasPrefix(p, ".goit/") }

func oracleIgnore(c *Ctx) error {
	if c.Step.Op != "goit" || !c.Post.HasGoit || c.Post.Index == nil {
		return nil
	}
	if c.Res.Panic || c.Res.Timeout {
		return fmt.Errorf("%s crashed or hung: %s", c.Step, c.Res)
	}
	ign := ignoreLines(c.Pre)
	sub := c.Step.Args[0]
	// whatever the command: nothing inside .goit is staged, and no command stages (creates or changes
	// the entry of) a path that .goitignore excludes. An entry staged before its path became ignored may stay.
	for _, e := range c.Post.Index.Entries {
		if insideGoit(e.Path) {
			return fmt.Errorf("after %s, a path inside Goit's own directory is staged: %q", c.Step, e.Path)
		}
		if ignoredBy(ign, e.Path) && c.Pre.IdxMap[e.Path] != e.ID && sub == "add" {
			return fmt.Errorf("%s staged a path excluded by .goitignore %q: %q", c.Step, ign, e.Path)
		}
	}
	if sub == "add" && c.Res.Exit == 0 {
		// completeness: everything named and not excluded is staged with its current bytes
		dot, dirWithExcluded, ordinary := false, false, false
		for _, a := range cleanArgsIn(c, c.Step.Args[1:]) {
			if a == "." {
				dot = true
			}
			for p, content := range c.Pre.Work.Files {
				if !(a == "." || a == p || under(a, p)) {
					continue
				}
				if cl := ignoreClass(ign, p); cl != "no" {
					dirWithExcluded = dirWithExcluded || a != p
					continue
				}
				ordinary = true
				if got := c.Post.IdxMap[p]; got != blobID(content) {
					return fmt.Errorf("after %s, %q (not ignored, outside .goit) is not staged with its current bytes (entry %q)", c.Step, p, got)
				}
			}
		}
		if dot {
			dirWithExcluded = true // "." always contains .goit
		}
		stats.LabelIf(dot, "add:dot")
		stats.LabelIf(len(ign) > 0, "add:with-goitignore")
		stats.LabelIf(dirWithExcluded, "add:directory-containing-excluded-paths")
		if dirWithExcluded && ordinary {
			stats.Nontrivial(strings.Join(c.Pre.Work.Paths(), "|") + "#" + strings.Join(ign, ",") + "#" + joinArgs(c.Step.Args))
		}
	}
	if sub == "status" && c.Res.Exit == 0 {
		rep, err := ParseStatus(c.Res.Stdout)
		if err != nil {
			return err
		}
		var listed []string
		for p := range rep.Staged {
			if insideGoit(p) {
				return fmt.Errorf("status lists %q, which is inside .goit", p)
			}
		}
		// what is TRACKED is reported from the index (staged, deleted, modified), whether or not the path became
		// ignored after it was staged: C13 demands every tracked file with differing bytes to be listed, and an
		// ignore entry cannot un-track a path. The statement is about what add stages and what is listed as untracked;
		// a modified path that is inside .goit would have to be tracked, which the add rule above excludes
		for p, k := range rep.Unstaged {
			if k == "modified" && insideGoit(p) {
				listed = append(listed, p)
			}
		}
		for p := range rep.Untracked {
			listed = append(listed, p)
		}
		for _, p := range listed {
			if insideGoit(p) || ignoredBy(ign, p) {
				return fmt.Errorf("status lists %q, which is inside .goit or ignored (%q)", p, ign)
			}
		}
		// with no .goitignore nothing outside .goit is hidden
		if len(ign) == 0 {
			for p := range c.Pre.Work.Files {
				_, tracked := c.Pre.IdxMap[p]
				if !tracked && !rep.Untracked[p] && p != ".goitignore" && !strings.Contains(p, "\n") { // (a name with a line break cannot be read back from the line-oriented report)
					return fmt.Errorf("no .goitignore, yet status hides the untracked file %q", p)
				}
			}
		}
	}
	if (sub == "reset" || sub == "restore") && c.Res.Exit == 0 {
		// Goit's own files are never rewritten from a blob
		if c.Pre.Goit.Files["config"] != c.Post.Goit.Files["config"] {
			return fmt.Errorf("%s rewrote .goit/config", c.Step)
		}
		if c.Pre.Goit.Files["HEAD"] != c.Post.Goit.Files["HEAD"] {
			return fmt.Errorf("%s rewrote .goit/HEAD", c.Step)
		}
		if d := sbx.Diff(c.Pre.Goit, c.Post.Goit, func(rel string) bool {
			return rel == "index" || strings.HasPrefix(rel, "logs") || strings.HasPrefix(rel, "refs/heads")
		}); len(d) > 0 {
			return fmt.Errorf("%s changed Goit's own files: %v", c.Step, d)
		}
	}
	return nil
}

var profIgnore = register(&Profile{
	ID: "C17", Name: "ignore",
	Oracles: []Oracle{{Name: "ignore", After: oracleIgnore}},
})

func init() {
	ops = append(ops,
		opGen{"add-dot", always, func(g *G) Step {
			args := []string{"add", "."}
			if g.Chance(20, "more") && hasFiles(g) {
				args = append(args, g.Pick(g.WorkFiles(), "file"))
			}
			return goit(args...)
		}},
		opGen{"add-dir", func(g *G) bool { return len(g.WorkDirs()) > 0 }, func(g *G) Step {
			args := []string{"add", g.Pick(g.WorkDirs(), "dir")}
			if g.Chance(30, "second") {
				args = append(args, g.Pick(g.WorkDirs(), "dir2"))
			}
			return goit(args...)
		}},
		opGen{"add-goit-path", always, func(g *G) Step {
			return goit("add", g.Pick([]string{".goit", ".goit/HEAD", ".goit/config", ".goit/objects", ".goit/index", ".goit/refs"}, "goitPath"))
		}},
		opGen{"write-near-goit", always, func(g *G) Step {
			// names that only look like the metadata directory: a backslash is an ordinary byte of a file name,
			// `.goitx/`, `x.goit/` and `.goit-old` are ordinary directories and files
			p := g.Pick([]string{`.goit\HEAD`, `.goit\index`, `.goit\config`, `.goit\refs\heads\main`, ".goitx/HEAD", ".goit-old", "x.goit/HEAD", ".goit.tmp", ".goit /HEAD", "d/.goitx"}, "nearGoit")
			if !g.pathUsable(p) {
				p = g.NewPath()
			}
			return Step{Op: "write", Path: p, Data: g.SmallContent()}
		}},
		opGen{"write-ignored", always, func(g *G) Step {
			// a file that a generated .goitignore would exclude: under an ignorable directory or with an ignorable extension
			dir := g.Pick(g.knownDirs(), "dir")
			var p string
			if g.Bool("byDir") {
				p = g.Pick(IgnoreDirs, "ignDir") + "/" + g.Pick([]string{"o", "sub/o", "x.go"}, "leaf")
			} else {
				ext := g.Pick(IgnoreExts, "ext")
				stems := []string{"out", "x", "a b"}
				if strings.Contains(g.E.Cur.Work.Files[".goitignore"], "*"+ext+"\n") {
					// a line break in the name, only while the extension IS excluded (a listed name with a line break
					// could not be told apart in the line-oriented report)
					stems = append(stems, "a\nb", "\nlead")
				}
				p = g.Pick(stems, "stem") + ext
				if ext == ".tar.gz" && g.Chance(40, "plainGzSibling") {
					// a sibling that shares only the LAST part of a two-part extension and sorts before the others
					p = "a0.gz"
				}
			}
			if dir != "" {
				p = dir + "/" + p
			}
			if !g.pathUsable(p) {
				p = g.NewPath()
			}
			return Step{Op: "write", Path: p, Data: g.SmallContent()}
		}},
		opGen{"write-file-named-like-ignored-dir", always, func(g *G) Step {
			// a regular FILE whose name is the name of a `name/` entry (the entry is about directories)
			dir := g.Pick(g.knownDirs(), "dir")
			p := g.Pick(IgnoreDirs, "ignDirName")
			if dir != "" {
				p = dir + "/" + p
			}
			if !g.pathUsable(p) || g.E.Cur.Work.Dirs[p] || ignoreClass(ignoreLines(g.E.Cur), p) != "no" {
				p = g.NewPath()
			}
			return Step{Op: "write", Path: p, Data: g.SmallContent()}
		}},
		opGen{"ignore-more", always, func(g *G) Step {
			// (re)write .goitignore later in the history: paths that are already tracked may become ignored
			return Step{Op: "write", Path: ".goitignore", Data: g.IgnoreFile()}
		}},
		opGen{"add-abs", always, func(g *G) Step {
			// spellings of '.' and of .goit paths that do not start at the repository root
			w := "{{work}}"
			return goit("add", g.Pick([]string{w, "../w", w + "/.goit/config", "../w/.goit/HEAD", w + "/.goit", "../w/.", w + "/."}, "absForm"))
		}},
		opGen{"write-ext-dir", always, func(g *G) Step {
			// a DIRECTORY whose name ends in an ignorable extension (what happens to it is unspecified), holding a file
			p := g.Pick([]string{"out", "gen", "x"}, "stem") + g.Pick(IgnoreExts, "ext") + "/" + g.Pick([]string{"o", "a.go"}, "leaf")
			if !g.pathUsable(p) || g.E.H.PathsEver[p] {
				p = g.NewPath()
			}
			return Step{Op: "write", Path: p, Data: g.SmallContent()}
		}},
		opGen{"dir2file", func(g *G) bool { return len(g.WorkDirs()) > 0 }, func(g *G) Step {
			// a directory (tracked or not) is removed and a regular file takes its name
			return Step{Op: "dir2file", Path: g.Pick(g.WorkDirs(), "dir"), Data: g.SmallContent()}
		}},
		opGen{"reset-hard-0", hasCommit, func(g *G) Step { return goit("reset", "--hard", "HEAD@{0}") }},
		opGen{"restore-dir", hasTracked, func(g *G) Step {
			ds := trackedDirs(g.E.Cur.Tracked())
			if len(ds) == 0 {
				return goit("restore", g.Pick(g.E.Cur.Tracked(), "path"))
			}
			return goit("restore", g.Pick(ds, "dir"))
		}},
	)
}

var ignoreWeights = Weights{"write-new": 14, "write-ignored": 16, "modify": 6, "remove-file": 3, "add": 8, "add-dot": 16, "add-dir": 14, "add-goit-path": 4, "write-near-goit": 5, "write-file-named-like-ignored-dir": 4, "add-abs": 5, "ignore-more": 3, "write-ext-dir": 4, "dir2file": 3,
	"status": 10, "commit": 8, "reset-hard-0": 4, "restore-dir": 4, "rm": 2}
