package cli

import (
	"fmt"
	"path"
	"regexp"
	"strconv"
	"strings"

	"github.com/JunNishimura/Goit/verifharness/core/sbx"
	"github.com/JunNishimura/Goit/verifharness/core/stats"
)

// C08 — reset moves exactly what each mode promises.
// C09 — restore is exact, in the working tree and in the staging area.

var resetArgRe = regexp.MustCompile(`^HEAD@\{(\d+)\}$`)

func resetModeOf(args []string) (mode string, rest []string, multi bool) {
	mode = "mixed"
	n := 0
	for _, a := range args[1:] {
		switch a {
		case "--soft", "--mixed", "--hard":
			mode = strings.TrimPrefix(a, "--")
			n++
		default:
			rest = append(rest, a)
		}
	}
	return mode, rest, n > 1
}

func beforeReset(c *Ctx) error {
	if !c.IsGoit("reset") {
		return nil
	}
	// what `reflog` displays now decides what position n means
	r := c.Goit("reflog")
	if r.Exit == 0 && !r.Panic {
		if es, err := ParseReflog(r.Stdout); err == nil {
			c.Tmp["reflog"] = es
		} else {
			c.Tmp["reflogErr"] = err
		}
	}
	return nil
}

func oracleReset(c *Ctx) error {
	if !c.IsGoit("reset") {
		return nil
	}
	if c.Res.Panic || c.Res.Timeout {
		return fmt.Errorf("reset crashed or hung: %s", c.Res)
	}
	mode, rest, multi := resetModeOf(c.Step.Args)
	if multi {
		return nil // combinations of mode flags are not defined by the statement
	}
	pre, post := c.Pre, c.Post
	es, haveLog := c.Tmp["reflog"].([]ReflogEntry)
	valid := len(rest) == 1 && resetArgRe.MatchString(rest[0]) && haveLog
	n := -1
	if valid {
		v, err := strconv.Atoi(resetArgRe.FindStringSubmatch(rest[0])[1])
		if err != nil || v >= len(es) {
			valid = false
		}
		n = v
	}
	if !valid {
		// malformed argument or position out of range: refused, nothing changes
		stats.Label("reset:refused")
		stats.Nontrivial("refused#" + joinArgs(c.Step.Args))
		if c.Res.Exit != 1 {
			return fmt.Errorf("reset %q must be refused (reflog has %d entries), exit=%d", c.Step.Args[1:], len(es), c.Res.Exit)
		}
		return unchangedAll(c, "reset was refused")
	}
	// a snapshot that holds a name both as a file and as a directory (a tracked file was replaced by a directory and
	// both were staged) cannot exist in a working tree: what --hard does with those paths is not stated
	conflicted := map[string]bool{}
	if mode == "hard" && n < len(es) {
		for id := range pre.Objects {
			if strings.HasPrefix(id, es[n].ID) {
				if snap, err := pre.Snapshot(id); err == nil {
					for p := range snap {
						for q := range snap {
							if strings.HasPrefix(q, p+"/") {
								conflicted[p], conflicted[q] = true, true
							}
						}
					}
				}
			}
		}
	}
	// an untracked file where a directory of the snapshot has to be, or untracked files in a directory that has the
	// name of a file of the snapshot: "makes every file exist" and "never touches a file that was never tracked"
	// cannot both be met (and Goit cannot know whether an untracked file was tracked in some earlier history):
	// a refusal is accepted, the never-tracked files must be intact all the same
	blocked := false
	if mode == "hard" && n < len(es) {
		for id := range pre.Objects {
			if strings.HasPrefix(id, es[n].ID) {
				if snap, err := pre.Snapshot(id); err == nil {
					for p := range snap {
						for f := range pre.Work.Files {
							if _, tracked := pre.IdxMap[f]; !tracked && (strings.HasPrefix(f, p+"/") || strings.HasPrefix(p, f+"/")) {
								blocked = true
							}
						}
					}
				}
			}
		}
	}
	if c.Res.Exit != 0 && (len(conflicted) > 0 || blocked) {
		stats.Label("reset:hard-refused-conflicted-or-blocked")
		for p, content := range pre.Work.Files {
			if got, ok := post.Work.Files[p]; !c.H.EverStaged[p] && (!ok || got != content) {
				return fmt.Errorf("failed reset --hard touched %q, which was never tracked", p)
			}
		}
		return nil
	}
	if c.Res.Exit != 0 {
		return fmt.Errorf("reset %s to position %d of %d failed: %s", mode, n, len(es), c.Res)
	}
	br := pre.HeadBr
	target := post.Branches[br]
	// the branch now holds exactly the commit displayed at position n
	if !strings.HasPrefix(target, es[n].ID) || len(target) != 40 {
		return fmt.Errorf("reset to HEAD@{%d}: reflog displayed %s there, branch %q now holds %q", n, es[n].ID, br, target)
	}
	if post.Head != pre.Head {
		return fmt.Errorf("reset changed HEAD: %q -> %q", pre.Head, post.Head)
	}
	for name, v := range pre.Branches {
		if name != br && post.Branches[name] != v {
			return fmt.Errorf("reset changed other branch %q", name)
		}
	}
	if len(post.Branches) != len(pre.Branches) {
		return fmt.Errorf("reset changed the set of branches")
	}
	snap, err := post.Snapshot(target)
	if err != nil {
		return nil // target not a readable commit: C03's business
	}
	switch mode {
	case "soft":
		if pre.Goit.Files["index"] != post.Goit.Files["index"] {
			return fmt.Errorf("reset --soft changed the staging area")
		}
		if d := sbx.DiffFiles(pre.Work, post.Work, nil); len(d) > 0 {
			return fmt.Errorf("reset --soft changed the working tree: %v", d)
		}
	case "mixed":
		if post.Index == nil {
			return fmt.Errorf("staging area undecodable after reset: %v", post.IndexErr)
		}
		if d := mapDiff(snap, post.IdxMap); len(d) > 0 {
			return fmt.Errorf("after reset --mixed the staging area is not the target commit's snapshot: %v", d)
		}
		if d := sbx.DiffFiles(pre.Work, post.Work, nil); len(d) > 0 {
			return fmt.Errorf("reset --mixed changed the working tree: %v", d)
		}
	case "hard":
		if post.Index == nil {
			return fmt.Errorf("staging area undecodable after reset: %v", post.IndexErr)
		}
		if d := mapDiff(snap, post.IdxMap); len(d) > 0 {
			return fmt.Errorf("after reset --hard the staging area is not the target commit's snapshot: %v", d)
		}
		for p, id := range snap {
			if conflicted[p] {
				continue
			}
			content, ok := post.Work.Files[p]
			if !ok {
				return fmt.Errorf("after reset --hard, %q of the target snapshot does not exist in the working tree", p)
			}
			if blobID(content) != id {
				return fmt.Errorf("after reset --hard, %q does not hold the committed bytes", p)
			}
		}
		// never touches a file that was never tracked
		for p, content := range pre.Work.Files {
			if c.H.EverStaged[p] {
				continue
			}
			if got, ok := post.Work.Files[p]; !ok || got != content {
				return fmt.Errorf("reset --hard touched %q, which was never tracked", p)
			}
		}
		for p := range post.Work.Files {
			if _, ok := pre.Work.Files[p]; !ok {
				if _, in := snap[p]; !in {
					return fmt.Errorf("reset --hard created %q, which is not in the target snapshot", p)
				}
			}
		}
	}
	if mode != "soft" {
		// "equal" as Goit itself reads it: with branch and staging area on the same snapshot, a later process finds
		// every entry and sees nothing staged (an entry that is there but cannot be looked up would show as a change);
		// after --hard the working tree equals it as well
		r := c.Goit("status")
		if r.Exit != 0 || r.Panic {
			return fmt.Errorf("status after reset --%s failed: %s", mode, r)
		}
		rep, err := ParseStatus(r.Stdout)
		if err != nil {
			return fmt.Errorf("status after reset --%s: %v", mode, err)
		}
		if len(rep.Staged) > 0 {
			return fmt.Errorf("after reset --%s to %s the branch and the staging area hold the same snapshot, yet status lists staged changes: %v", mode, target[:8], rep.Staged)
		}
		if mode == "hard" && len(rep.Unstaged) > 0 && len(conflicted) == 0 {
			return fmt.Errorf("after reset --hard to %s status lists unstaged changes of tracked files: %v", target[:8], rep.Unstaged)
		}
	}
	perturbed := len(sbx.DiffFiles(pre.Work, &sbx.Tree{Files: filesOf(pre), Dirs: pre.Work.Dirs}, nil)) > 0
	stats.Label("reset:" + mode)
	stats.LabelIf(n >= 1, "reset:n>=1")
	stats.LabelIf(n >= 10, "reset:n>=10")
	stats.LabelIf(perturbed, "reset:perturbed-worktree")
	if n >= 1 {
		stats.Nontrivial(fmt.Sprintf("%d#%s#%d#%v#%s", len(es), mode, n, perturbed, strings.Join(pre.Tracked(), "|")))
	}
	return nil
}

// filesOf returns what the working tree would hold if it equalled the staging area
// (used only to classify a working tree as perturbed).
func filesOf(o *Obs) map[string]string {
	m := map[string]string{}
	for p, id := range o.IdxMap {
		if content, ok := o.Work.Files[p]; ok && blobID(content) == id {
			m[p] = content
		} else {
			m[p] = "\x00different"
		}
	}
	for p, c := range o.Work.Files {
		if _, ok := m[p]; !ok {
			m[p] = c + "\x00untracked"
		}
	}
	return m
}

var profReset = register(&Profile{
	ID: "C08", Name: "reset",
	Oracles: []Oracle{{Name: "reset-exact", Before: beforeReset, After: oracleReset}},
})

var resetWeights = Weights{"write-big-twin": 1, "ignore-more": 2, "commit-repeat-message": 3, "dir-at-unstaged-file": 3, "file-at-unstaged-dir": 3, "dir2file": 2, "file2dir": 2, "write-new": 14, "modify": 12, "remove-file": 8, "rmdir": 6, "recreate": 2, "add": 18, "rm": 3, "commit": 20,
	"reset": 22, "reset-invalid": 5, "write-temp-sibling": 5, "copydir": 3, "revert": 4, "switch": 4, "switch-c": 3, "branch": 2}

// ---------------------------------------------------------------- C09

func oracleRestore(c *Ctx) error {
	if !c.IsGoit("restore") {
		return nil
	}
	if c.Res.Panic || c.Res.Timeout {
		return fmt.Errorf("restore crashed or hung: %s", c.Res)
	}
	staged := false
	var args []string
	for _, a := range c.Step.Args[1:] {
		if a == "--staged" {
			staged = true
		} else {
			args = append(args, path.Clean(a))
		}
	}
	pre, post := c.Pre, c.Post
	if len(args) == 0 {
		if c.Res.Exit != 1 {
			return fmt.Errorf("restore without a path must be refused")
		}
		return unchangedAll(c, "restore was refused")
	}
	if !staged {
		// targets: named tracked files and every tracked path beneath a named directory
		targets := map[string]bool{}
		known := true
		for _, a := range args {
			n := 0
			if _, ok := pre.IdxMap[a]; ok {
				targets[a] = true
				n++
			}
			for p := range pre.IdxMap {
				if under(a, p) {
					targets[p] = true
					n++
				}
			}
			if n == 0 {
				known = false
			}
		}
		if !known {
			if c.Res.Exit != 1 {
				return fmt.Errorf("restore of a path that is not tracked must be refused, exit=%d", c.Res.Exit)
			}
			return unchangedAll(c, "restore was refused")
		}
		occupied := false
		for p := range targets {
			if pre.Work.Dirs[p] || underFile(pre, p) {
				occupied = true // the place of a tracked path is taken by a directory, or a file sits where its directory should be
			}
			for q := range targets {
				if dirPrefix(p, q) {
					occupied = true // the staging area holds a file and paths beneath a directory of the same name: both cannot exist on disk
				}
			}
		}
		if c.Res.Exit != 0 && occupied {
			// the statement does not say that restore removes what is in the way: a failure is tolerated,
			// but nothing else may change
			stats.Label("restore:path-occupied")
			if d := sbx.DiffFiles(pre.Work, post.Work, func(rel string) bool { return targets[rel] }); len(d) > 0 {
				return fmt.Errorf("failed restore %q changed other files: %v", args, d)
			}
			if d := sbx.Diff(pre.Goit, post.Goit, nil); len(d) > 0 {
				return fmt.Errorf("restore (working tree) changed .goit: %v", d)
			}
			return nil
		}
		if c.Res.Exit != 0 {
			return fmt.Errorf("restore %q of tracked paths failed: %s", args, c.Res)
		}
		changed := 0
		for p := range targets {
			if occupied {
				break // conflicting targets: which of them ends up on disk is not specified
			}
			content, ok := post.Work.Files[p]
			if !ok {
				return fmt.Errorf("after restore %q, tracked path %q does not exist in the working tree", args, p)
			}
			if blobID(content) != pre.IdxMap[p] {
				return fmt.Errorf("after restore %q, %q is not byte-identical to its staged blob", args, p)
			}
			if pre.Work.Files[p] != content || !hasFile(pre, p) {
				changed++
			}
		}
		if d := sbx.DiffFiles(pre.Work, post.Work, func(rel string) bool { return targets[rel] }); len(d) > 0 {
			return fmt.Errorf("restore %q changed other files: %v", args, d)
		}
		if d := sbx.Diff(pre.Goit, post.Goit, nil); len(d) > 0 {
			return fmt.Errorf("restore (working tree) changed .goit: %v", d)
		}
		classifyRestore(c, args, changed, false)
		return nil
	}
	// --staged
	hs, err := pre.HeadSnapshot()
	if err != nil {
		return nil
	}
	if pre.HeadCommit() == "" {
		if c.Res.Exit != 1 {
			return fmt.Errorf("restore --staged without any commit must be refused")
		}
		return unchangedAll(c, "restore --staged was refused")
	}
	targets := map[string]bool{}
	known := true
	for _, a := range args {
		n := 0
		for _, m := range []map[string]string{pre.IdxMap, hs} {
			if _, ok := m[a]; ok {
				targets[a] = true
				n++
			}
			for p := range m {
				if under(a, p) {
					targets[p] = true
					n++
				}
			}
		}
		if n == 0 {
			known = false
		}
	}
	if !known {
		if c.Res.Exit != 1 {
			return fmt.Errorf("restore --staged of a path known to neither the staging area nor HEAD must be refused, exit=%d", c.Res.Exit)
		}
		return unchangedAll(c, "restore --staged was refused")
	}
	// a name that is a file AND a directory in (staging area ∪ HEAD) — possible after a tracked file was
	// replaced by a directory or vice versa and both were added: which of the two an argument means is not
	// specified; only "nothing else changes" is asserted then
	for _, a := range args {
		isPath, isDir := false, false
		for _, m := range []map[string]string{pre.IdxMap, hs} {
			if _, ok := m[a]; ok {
				isPath = true
			}
			for p := range m {
				if under(a, p) {
					isDir = true
				}
			}
		}
		if isPath && isDir {
			stats.Label("restore:ambiguous-file-and-directory")
			if post.Index == nil {
				return fmt.Errorf("staging area undecodable after restore --staged: %v", post.IndexErr)
			}
			for p, id := range pre.IdxMap {
				if !targets[p] && post.IdxMap[p] != id {
					return fmt.Errorf("restore --staged %q changed the entry of %q, which was not named", args, p)
				}
			}
			for p := range post.IdxMap {
				if _, ok := pre.IdxMap[p]; !ok && !targets[p] {
					return fmt.Errorf("restore --staged %q staged %q, which was not named", args, p)
				}
			}
			if d := sbx.DiffFiles(pre.Work, post.Work, nil); len(d) > 0 {
				return fmt.Errorf("restore --staged changed the working tree: %v", d)
			}
			return nil
		}
	}
	if c.Res.Exit != 0 {
		return fmt.Errorf("restore --staged %q failed: %s", args, c.Res)
	}
	if post.Index == nil {
		return fmt.Errorf("staging area undecodable after restore --staged: %v", post.IndexErr)
	}
	want := map[string]string{}
	for p, id := range pre.IdxMap {
		want[p] = id
	}
	changed := 0
	for p := range targets {
		if hid, ok := hs[p]; ok {
			if want[p] != hid {
				changed++
			}
			want[p] = hid
		} else {
			if _, ok := want[p]; ok {
				changed++
			}
			delete(want, p)
		}
	}
	if d := mapDiff(want, post.IdxMap); len(d) > 0 {
		return fmt.Errorf("after restore --staged %q the staging area is not (old entries, with the named ones taken from HEAD): %v", args, d)
	}
	if d := sbx.DiffFiles(pre.Work, post.Work, nil); len(d) > 0 {
		return fmt.Errorf("restore --staged changed the working tree: %v", d)
	}
	if d := sbx.Diff(pre.Goit, post.Goit, func(rel string) bool { return rel == "index" }); len(d) > 0 {
		return fmt.Errorf("restore --staged changed more than the staging area: %v", d)
	}
	classifyRestore(c, args, changed, true)
	return nil
}

func hasFile(o *Obs, p string) bool { _, ok := o.Work.Files[p]; return ok }

func classifyRestore(c *Ctx, args []string, changed int, staged bool) {
	dirArg, deletedArg := false, false
	for _, a := range args {
		isTrackedDir := false
		for p := range c.Pre.IdxMap {
			if under(a, p) {
				isTrackedDir = true
			}
		}
		if isTrackedDir {
			dirArg = true
			if !c.Pre.Work.Dirs[a] {
				deletedArg = true
			}
		} else if !hasFile(c.Pre, a) {
			deletedArg = true
		}
	}
	stats.LabelIf(dirArg, "restore:directory-arg")
	stats.LabelIf(deletedArg, "restore:deleted-arg")
	stats.LabelIf(staged, "restore:staged")
	stats.LabelIf(changed > 0, "restore:changed-something")
	if (dirArg || deletedArg) && changed > 0 {
		stats.Nontrivial(mustJSON(c.Pre.IdxMap) + "#" + strings.Join(c.Pre.Work.Paths(), "|") + "#" + joinArgs(c.Step.Args))
	}
}

var profRestore = register(&Profile{
	ID: "C09", Name: "restore",
	Oracles: []Oracle{{Name: "restore-exact", After: oracleRestore}},
})

var restoreWeights = Weights{"ignore-more": 2, "dir-at-unstaged-file": 3, "file-at-unstaged-dir": 3, "write-new": 14, "modify": 14, "remove-file": 12, "rmdir": 8, "add": 18, "rm": 4, "commit": 10,
	"restore": 20, "restore-staged": 18, "restore-invalid": 4, "reset": 3, "dir2file": 3, "file2dir": 3, "write-temp-sibling": 4}
