package cli

import (
	"fmt"
	"path"
	"sort"
	"strings"

	"github.com/JunNishimura/Goit/verifharness/core/gitfmt"
	"github.com/JunNishimura/Goit/verifharness/core/sbx"
	"github.com/JunNishimura/Goit/verifharness/core/stats"
)

// C04 — staging is exact: add and rm change precisely the named paths.

// cleanArgs brings path arguments to their canonical spelling ("./a//b/../c" -> "a/c").
func cleanArgs(args []string) []string {
	out := make([]string, len(args))
	for i, a := range args {
		out[i] = path.Clean(a)
	}
	return out
}

// cleanArgsIn also maps absolute spellings and spellings through the parent directory
// ("/abs/work/a", "../w/a") to the path relative to the repository root.
func cleanArgsIn(c *Ctx, args []string) []string {
	out := make([]string, len(args))
	for i, a := range args {
		abs := a
		if !path.IsAbs(a) {
			abs = path.Join(c.Box.Work, a)
		}
		abs = path.Clean(abs)
		switch {
		case abs == c.Box.Work:
			out[i] = "."
		case strings.HasPrefix(abs, c.Box.Work+"/"):
			out[i] = strings.TrimPrefix(abs, c.Box.Work+"/")
		default:
			out[i] = path.Clean(a)
		}
	}
	return out
}

// rawSpellingResolves follows a relative argument component by component the way the operating system does:
// every component that is passed through (also by "..", "." or a trailing slash) has to be an existing directory.
func rawSpellingResolves(c *Ctx, raw string) bool {
	if path.IsAbs(raw) || strings.HasPrefix(raw, "../") {
		return true // absolute and parent-relative spellings are built from existing paths only
	}
	comps := strings.Split(raw, "/")
	var cur []string
	for i, comp := range comps {
		isDir := func() bool {
			p := strings.Join(cur, "/")
			return p == "" || c.Pre.Work.Dirs[p]
		}
		switch comp {
		case "", ".":
			if i > 0 && !isDir() {
				return false
			}
		case "..":
			if !isDir() || len(cur) == 0 {
				return len(cur) == 0 && false
			}
			cur = cur[:len(cur)-1]
		default:
			if i > 0 && !isDir() {
				return false
			}
			cur = append(cur, comp)
		}
	}
	return true
}

func blobID(content string) string { return gitfmt.HashObject("blob", []byte(content)) }

// mapsEqual compares two path->id maps and describes the first differences.
func mapDiff(want, got map[string]string) []string {
	var out []string
	for _, k := range sortedKeys(want) {
		g, ok := got[k]
		if !ok {
			out = append(out, fmt.Sprintf("missing %q (want %s)", k, want[k][:8]))
		} else if g != want[k] {
			out = append(out, fmt.Sprintf("%q has id %s, want %s", k, g[:8], want[k][:8]))
		}
	}
	for _, k := range sortedKeys(got) {
		if _, ok := want[k]; !ok {
			out = append(out, fmt.Sprintf("unexpected %q (%s)", k, got[k][:8]))
		}
	}
	return out
}

func unchangedAll(c *Ctx, what string) error {
	if d := sbx.Diff(c.Pre.Goit, c.Post.Goit, nil); len(d) > 0 {
		return fmt.Errorf("%s but .goit changed: %v", what, d)
	}
	if d := sbx.DiffFiles(c.Pre.Work, c.Post.Work, nil); len(d) > 0 {
		return fmt.Errorf("%s but the working tree changed: %v", what, d)
	}
	return nil
}

// newObjects lists object ids present after but not before.
func newObjects(c *Ctx) []string {
	var out []string
	for id := range c.Post.Objects {
		if !c.Pre.Objects[id] {
			out = append(out, id)
		}
	}
	sort.Strings(out)
	return out
}

func oracleAdd(c *Ctx) error {
	if !c.IsGoit("add") {
		return nil
	}
	if c.Res.Panic || c.Res.Timeout {
		return fmt.Errorf("add crashed or hung")
	}
	args := cleanArgsIn(c, c.Step.Args[1:])
	pre := c.Pre
	// classification of the arguments
	refuse := len(args) == 0
	ambiguous := false
	for _, a := range args {
		_, isFile := pre.Work.Files[a]
		isDir := pre.Work.Dirs[a]
		_, tracked := pre.IdxMap[a]
		if !isFile && !isDir && !tracked {
			// a deleted directory with tracked paths beneath: outcome not asserted
			for p := range pre.IdxMap {
				if under(a, p) {
					ambiguous = true
				}
			}
			refuse = true
		}
	}
	// spellings that only a lexical clean-up resolves ("f/" for a file, "nosuch/../f", "<file>/../f"): the operating
	// system does not find such a path, so refusing it is as right as reading it lexically; what must not happen is a
	// third thing (the pinned tree took the tracked file for deleted and unstaged it)
	lexicalOnly := false
	for _, raw := range c.Step.Args[1:] {
		if !rawSpellingResolves(c, raw) {
			lexicalOnly = true
		}
	}
	if lexicalOnly && !refuse && c.Res.Exit == 1 {
		stats.Label("add:lexical-only-spelling-refused")
		return unchangedAll(c, "add refused a spelling that only resolves lexically")
	}
	if refuse {
		if c.Res.Exit != 1 && !ambiguous {
			return fmt.Errorf("add with an argument that is neither on disk nor tracked must be refused, exit=%d", c.Res.Exit)
		}
		if c.Res.Exit == 1 {
			return unchangedAll(c, "add was refused")
		}
		if ambiguous {
			return nil
		}
	}
	// expected staging area
	want := map[string]string{}
	for p, id := range pre.IdxMap {
		want[p] = id
	}
	staged := map[string]string{} // path -> content staged by this command
	// with a .goitignore (a share of the scenarios): an excluded path keeps whatever entry it has (C17), a path whose
	// class the properties leave open is not compared at all, everything else follows the rules of this property
	ign := ignoreLines(pre)
	open := map[string]bool{}
	stage := func(p, content string) {
		switch ignoreClass(ign, p) {
		case "no":
			want[p] = blobID(content)
			staged[p] = content
		case "unspecified":
			open[p] = true
		}
	}
	for _, a := range args {
		if content, ok := pre.Work.Files[a]; ok {
			stage(a, content)
			continue
		}
		if pre.Work.Dirs[a] {
			for p, content := range pre.Work.Files {
				if under(a, p) {
					stage(p, content)
				}
			}
			continue
		}
		// tracked, no longer on disk: unstaged
		alsoDir := false
		for p := range pre.IdxMap {
			if under(a, p) {
				alsoDir = true // the name is staged as a file AND has entries beneath it: with an ignore list, which of the two the name means is open
			}
		}
		switch {
		case ignoreClass(ign, a) == "no" && !(alsoDir && len(ign) > 0):
			delete(want, a)
		default:
			open[a] = true
		}
	}

	if c.Res.Exit != 0 {
		return fmt.Errorf("add of valid arguments %q failed (exit %d): %s", args, c.Res.Exit, c.Res.Stderr+c.Res.Stdout)
	}
	if c.Post.Index == nil {
		return fmt.Errorf("staging area undecodable after add: %v", c.Post.IndexErr)
	}
	got := c.Post.IdxMap
	if len(open) > 0 {
		got = map[string]string{}
		for p, id := range c.Post.IdxMap {
			if !open[p] {
				got[p] = id
			}
		}
		for p := range open {
			delete(want, p)
		}
	}
	if d := mapDiff(want, got); len(d) > 0 {
		return fmt.Errorf("staging area after add %q is not exactly (old entries overridden by the named paths): %v", args, d)
	}
	// each staged blob is stored and holds the file's bytes
	for p, content := range staged {
		o, err := gitfmt.ReadObject(c.Post.Store, want[p])
		if err != nil {
			return fmt.Errorf("blob of staged path %q not stored: %v", p, err)
		}
		if o.Kind != "blob" || string(o.Data) != content {
			return fmt.Errorf("blob of staged path %q does not hold the file's bytes", p)
		}
		if c.H.StagedIDs[p] == nil {
			c.H.StagedIDs[p] = map[string]bool{}
		}
		c.H.StagedIDs[p][want[p]] = true
	}
	// nothing else is written: new objects are exactly the new blobs, the working tree is untouched
	expectNew := map[string]bool{}
	for p := range staged {
		if !pre.Objects[want[p]] {
			expectNew[want[p]] = true
		}
	}
	for _, id := range newObjects(c) {
		if !expectNew[id] {
			return fmt.Errorf("add created an object %s that is not the blob of a named file", id)
		}
	}
	if d := sbx.DiffFiles(pre.Work, c.Post.Work, nil); len(d) > 0 {
		return fmt.Errorf("add touched the working tree: %v", d)
	}
	if d := sbx.Diff(pre.Goit, c.Post.Goit, func(rel string) bool { return rel == "index" || strings.HasPrefix(rel, "objects") }); len(d) > 0 {
		return fmt.Errorf("add changed files other than the staging area and new objects: %v", d)
	}
	// re-adding unchanged files changes nothing at all
	same := true
	for p, id := range want {
		if pre.IdxMap[p] != id {
			same = false
		}
	}
	if same && len(want) == len(pre.IdxMap) {
		if d := sbx.Diff(pre.Goit, c.Post.Goit, nil); len(d) > 0 {
			return fmt.Errorf("re-adding unchanged files changed .goit: %v", d)
		}
		stats.Label("add:noop")
	}
	return nil
}

func oracleRm(c *Ctx) error {
	if !c.IsGoit("rm") {
		return nil
	}
	if c.Res.Panic || c.Res.Timeout {
		return fmt.Errorf("rm crashed or hung")
	}
	args := cleanArgs(c.Step.Args[1:])
	pre := c.Pre
	named := map[string]bool{}
	valid := len(args) > 0
	overlap := false
	for i, a := range args {
		n := 0
		if _, ok := pre.IdxMap[a]; ok {
			if named[a] {
				overlap = true
			}
			named[a] = true
			n++
		}
		for p := range pre.IdxMap {
			if under(a, p) {
				if named[p] {
					overlap = true
				}
				named[p] = true
				n++
			}
		}
		if n == 0 {
			valid = false
		}
		for j := 0; j < i; j++ {
			if args[j] == a {
				overlap = true
			}
		}
	}
	// whatever the exit status: nothing outside the named tracked paths is removed or modified
	for p, content := range pre.Work.Files {
		if named[p] {
			continue
		}
		if got, ok := c.Post.Work.Files[p]; !ok {
			return fmt.Errorf("rm %q removed %q, which is not a named tracked path (tracked: %v)", args, p, pre.IdxMap[p] != "")
		} else if got != content {
			return fmt.Errorf("rm %q modified %q", args, p)
		}
	}
	for p := range c.Post.Work.Files {
		if _, ok := pre.Work.Files[p]; !ok {
			return fmt.Errorf("rm %q created %q", args, p)
		}
	}
	if c.Post.Index == nil {
		return fmt.Errorf("staging area undecodable after rm: %v", c.Post.IndexErr)
	}
	for p, id := range pre.IdxMap {
		if got, ok := c.Post.IdxMap[p]; !ok && !named[p] {
			return fmt.Errorf("rm %q unstaged %q, which was not named", args, p)
		} else if ok && got != id {
			return fmt.Errorf("rm %q changed the staged entry of %q", args, p)
		}
	}
	for p := range c.Post.IdxMap {
		if _, ok := pre.IdxMap[p]; !ok {
			return fmt.Errorf("rm %q staged a new path %q", args, p)
		}
	}
	if len(newObjects(c)) > 0 {
		return fmt.Errorf("rm created objects")
	}
	if !valid {
		if c.Res.Exit != 1 {
			return fmt.Errorf("rm of a path that is not tracked must be refused, exit=%d", c.Res.Exit)
		}
		return unchangedAll(c, "rm was refused")
	}
	occupied := false
	for p := range named {
		if pre.Work.Dirs[p] {
			occupied = true // a tracked path whose place in the working tree is taken by a directory (which may hold untracked files)
		}
	}
	if c.Res.Exit != 0 && occupied {
		stats.Label("rm:path-occupied-by-directory")
		return nil // the state rules above were checked: in particular no untracked file was removed
	}
	stats.LabelIf(overlap, "rm:overlapping-args")
	if c.Res.Exit != 0 {
		return fmt.Errorf("rm of tracked paths %q failed (exit %d): %s", args, c.Res.Exit, c.Res.Stderr+c.Res.Stdout)
	}
	for p := range named {
		if _, ok := c.Post.IdxMap[p]; ok {
			return fmt.Errorf("after rm %q, %q is still staged", args, p)
		}
		if _, ok := c.Post.Work.Files[p]; ok && !occupied {
			return fmt.Errorf("after rm %q, %q is still in the working tree", args, p)
		}
	}
	return nil
}

func classifyStage(c *Ctx) {
	if !(c.IsGoit("add") || c.IsGoit("rm")) || len(c.Pre.IdxMap) == 0 {
		return
	}
	args := c.Step.Args[1:]
	interesting := false
	seen := map[string]bool{}
	for _, a := range args {
		if c.Pre.Work.Dirs[a] {
			interesting = true
			stats.Label("arg:directory")
		}
		if _, ok := c.Pre.Work.Files[a]; !ok && c.Pre.IdxMap[a] != "" {
			interesting = true
			stats.Label("arg:deleted-but-tracked")
		}
		if seen[a] {
			interesting = true
			stats.Label("arg:repeated")
		}
		seen[a] = true
	}
	if interesting {
		stats.Nontrivial(strings.Join(c.Pre.Tracked(), "|") + "#" + joinArgs(c.Step.Args) + "#" + strings.Join(c.Pre.Work.Paths(), "|"))
	}
}

var profStage = register(&Profile{
	ID: "C04", Name: "stage",
	Oracles:  []Oracle{{Name: "add-exact", After: oracleAdd}, {Name: "rm-exact", After: oracleRm}},
	Classify: classifyStage,
})

var stageWeights = Weights{"ignore-more": 2, "write-ignored": 3, "write-file-named-like-ignored-dir": 3, "dir-at-unstaged-file": 3, "file-at-unstaged-dir": 3, "dir2file": 3, "write-new": 20, "modify": 12, "remove-file": 10, "rmdir": 4, "recreate": 4, "add": 30, "add-invalid": 3, "rm": 12, "rm-invalid": 3, "file2dir": 4, "revert": 6, "recreate-unstaged": 3, "commit": 6, "reset": 4, "touch": 2, "rewrite-same": 2, "write-temp-sibling": 3}
