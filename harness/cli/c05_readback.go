package cli

import (
	"fmt"
	"strings"

	"github.com/JunNishimura/Goit/verifharness/core/gitfmt"
	"github.com/JunNishimura/Goit/verifharness/core/stats"
)

// C05 (b) — histories: for every commit the machine made, reset --mixed to it makes
// `ls-files -s` equal the set that was staged when the commit was made (recorded
// by the harness at commit time), and cat-file -p lists each of its trees exactly.

func oracleReadback(c *Ctx) error {
	if !c.IsGoit("reset") || c.Res.Exit != 0 || c.Res.Panic {
		return nil
	}
	mode, _, multi := resetModeOf(c.Step.Args)
	if multi || mode == "soft" {
		return nil
	}
	target := c.Post.HeadCommit()
	rec := c.H.Commits[target]
	if rec == nil {
		return nil
	}
	r := c.Goit("ls-files", "-s")
	if r.Exit != 0 || r.Panic {
		return fmt.Errorf("ls-files -s failed after reset: %s", r)
	}
	got, _, err := ParseLsFilesS(r.Stdout)
	if err != nil {
		return err
	}
	if d := mapDiff(rec.Snapshot, got); len(d) > 0 {
		return fmt.Errorf("after reset --%s to commit %s, ls-files -s is not what was staged when that commit was made: %v", mode, target[:8], d)
	}
	cm, err := gitfmt.ReadCommit(c.Post.Store, target)
	if err != nil {
		return nil
	}
	if err := checkTreeListing(c.Box, c.Post.Store, cm.Tree, 0); err != nil {
		return err
	}
	c.ranGoit = true
	var paths []string
	space := false
	for p := range rec.Snapshot {
		paths = append(paths, p)
		space = space || strings.Contains(p, " ")
	}
	stats.LabelIf(len(rec.Snapshot) == 0, "readback:empty-snapshot")
	stats.LabelIf(space, "readback:space-in-name")
	if len(paths) >= 3 || hasBetweenSibling(paths) || space || len(paths) == 0 {
		stats.Nontrivial("hist#" + mustJSON(rec.Snapshot))
	}
	return nil
}

var profReadback = register(&Profile{
	ID: "C05", Name: "readback",
	Oracles: []Oracle{{Name: "readback", After: oracleReadback}},
})

func init() {
	ops = append(ops, opGen{"rm-all", hasTracked, func(g *G) Step {
		// remove everything that is tracked: the next commit records the empty snapshot
		args := []string{"rm"}
		seen := map[string]bool{}
		for _, p := range g.E.Cur.Tracked() {
			top := strings.SplitN(p, "/", 2)[0]
			if !seen[top] {
				seen[top] = true
				args = append(args, top)
			}
		}
		return goit(args...)
	}})
}

var readbackWeights = Weights{"dir-at-unstaged-file": 3, "file-at-unstaged-dir": 3, "write-new": 20, "modify": 8, "remove-file": 4, "add": 24, "rm": 5, "rm-all": 3, "copydir": 5, "file2dir": 3, "commit": 22, "reset": 22, "switch-c": 2}
