package cli

import (
	"bytes"
	"encoding/json"
	"fmt"
	"os/exec"
	"strings"
	"testing"
	"unicode/utf8"

	"github.com/JunNishimura/Goit/verifharness/core/findings"
	"github.com/JunNishimura/Goit/verifharness/core/gitfmt"
	"github.com/JunNishimura/Goit/verifharness/core/sbx"
	"github.com/JunNishimura/Goit/verifharness/core/stats"
	"pgregory.net/rapid"
)

// C01 (CLI layer): content addressing and lossless round trip through
// hash-object / add / cat-file / commit.

type c01Case struct {
	Files [][]byte `json:"files"`
	Message string `json:"message,omitempty"` // message of the commit that stores the tree and commit objects ("" = "c01")
}

func hostileContent(b []byte) bool {
	if len(b) == 0 {
		return false
	}
	if bytes.IndexByte(b, 0) >= 0 || !utf8.Valid(b) || len(b) > 4096 {
		return true
	}
	for _, p := range []string{"blob", "tree", "commit", " ", "0", "1", "2", "3", "4", "5", "6", "7", "8", "9", "\n"} {
		if bytes.HasPrefix(b, []byte(p)) {
			return true
		}
	}
	return false
}

var gitPath, _ = exec.LookPath("git")

func runC01(c *c01Case) error {
	b := sbx.New()
	defer b.Close()
	if r := b.Run("init"); !r.OK() {
		return fmt.Errorf("init failed: %s", r)
	}
	b.Run("config", "user.name", "U")
	b.Run("config", "user.email", "u@example.com")
	known := map[string][]byte{} // id -> bytes
	for i, data := range c.Files {
		name := fmt.Sprintf("f%d", i)
		if err := b.WriteFile(name, data); err != nil {
			return err
		}
		want := gitfmt.HashObject("blob", data)
		// (1) id = SHA-1("blob <len>\0<bytes>") = what hash-object prints = what Git assigns
		r := b.Run("hash-object", name)
		if !r.OK() || strings.TrimSpace(r.Stdout) != want {
			return fmt.Errorf("hash-object of %d bytes %s: want %s, got %s", len(data), preview(data), want, r)
		}
		if gitPath != "" && i == 0 {
			cmd := exec.Command(gitPath, "hash-object", "--no-filters", name)
			cmd.Dir = b.Work
			if out, err := cmd.Output(); err == nil {
				stats.Extra("git_differential_checks", 1)
				if strings.TrimSpace(string(out)) != want {
					return fmt.Errorf("harness self-check: git hash-object %s != independent %s", out, want)
				}
			}
		}
		pre := Observe(b)
		r = b.Run("add", name)
		if !r.OK() {
			return fmt.Errorf("add of %d bytes %s failed: %s", len(data), preview(data), r)
		}
		post := Observe(b)
		if !post.Objects[want] {
			return fmt.Errorf("after add, no object file for blob %s (content %s)", want, preview(data))
		}
		// (3) the object file inflates to exactly header + data
		o, err := gitfmt.ReadObject(post.Store, want)
		if err != nil {
			return fmt.Errorf("stored blob not readable independently: %v", err)
		}
		if o.Kind != "blob" || !bytes.Equal(o.Data, data) {
			return fmt.Errorf("stored blob %s decodes to kind %s, %d bytes %s; stored %d bytes %s", want, o.Kind, len(o.Data), preview(o.Data), len(data), preview(data))
		}
		// equal content => one file: number of new object files is 0 if content was known, else 1
		added := 0
		for id := range post.Objects {
			if !pre.Objects[id] {
				added++
			}
		}
		_, seen := known[want]
		if seen && added != 0 || !seen && added != 1 {
			return fmt.Errorf("add of content (known before: %v) created %d object files", seen, added)
		}
		known[want] = data
		// (2) round trip through cat-file
		r = b.Run("cat-file", "-t", want)
		if !r.OK() || r.Stdout != "blob\n" {
			return fmt.Errorf("cat-file -t %s: %s", want, r)
		}
		r = b.Run("cat-file", "-p", want)
		if !r.OK() || r.Stdout != string(data)+"\n" {
			return fmt.Errorf("cat-file -p %s does not return the %d stored bytes %s: got %d bytes %s (exit %d)", want, len(data), preview(data), len(r.Stdout), preview([]byte(r.Stdout)), r.Exit)
		}
		// storing again (after a touch, and under a second name) changes nothing
		b.Touch(name, timeAt(i))
		if r = b.Run("add", name); !r.OK() {
			return fmt.Errorf("re-add failed: %s", r)
		}
		b.WriteFile(name+".copy", data)
		if r = b.Run("add", name+".copy"); !r.OK() {
			return fmt.Errorf("add of a second name failed: %s", r)
		}
		again := Observe(b)
		if len(again.Objects) != len(post.Objects) {
			return fmt.Errorf("storing the same content again changed the number of object files: %d -> %d", len(post.Objects), len(again.Objects))
		}
		if again.IdxMap[name] != want || again.IdxMap[name+".copy"] != want {
			return fmt.Errorf("equal content staged under different ids: %s, %s, want %s", again.IdxMap[name], again.IdxMap[name+".copy"], want)
		}
		// (4) invariant: everything stored so far still decodes to the model's bytes
		for id, d := range known {
			o, err := gitfmt.ReadObject(again.Store, id)
			if err != nil {
				return fmt.Errorf("earlier object %s damaged after later stores: %v", id, err)
			}
			if !bytes.Equal(o.Data, d) {
				return fmt.Errorf("earlier object %s changed content after later stores", id)
			}
		}
		if hostileContent(data) {
			stats.Nontrivial("blob:" + want)
		}
	}
	// (1b) several files in one call: one id per file, in argument order, each the id of that file alone
	if len(c.Files) > 0 {
		args := []string{"hash-object"}
		var wantOut string
		for i := len(c.Files) - 1; i >= 0; i-- {
			args = append(args, fmt.Sprintf("f%d", i))
			wantOut += gitfmt.HashObject("blob", c.Files[i]) + "\n"
		}
		args = append(args, "f0", "f0.copy")
		wantOut += strings.Repeat(gitfmt.HashObject("blob", c.Files[0])+"\n", 2)
		if r := b.Run(args...); !r.OK() || r.Stdout != wantOut {
			return fmt.Errorf("%v prints %q, the ids of these files are %q", args, r.Stdout, wantOut)
		}
	}
	// (5) an id that was never stored is an error, not data
	unknown := gitfmt.HashObject("blob", []byte("never stored \x00 content"))
	if r := b.Run("cat-file", "-p", unknown); r.Exit != 1 || r.Panic {
		return fmt.Errorf("cat-file -p of an unknown id: %s", r)
	}
	// tree and commit objects: the ones commit creates
	pre := Observe(b)
	msg := c.Message
	if msg == "" {
		msg = "c01"
	}
	r := b.Run("commit", "-m", msg)
	if !r.OK() {
		return fmt.Errorf("commit -m %q failed: %s", preview([]byte(msg)), r)
	}
	post := Observe(b)
	if hc, err := gitfmt.ReadCommit(post.Store, post.HeadCommit()); err != nil {
		return fmt.Errorf("after commit -m %s the commit object of HEAD is not stored intact: %v", preview([]byte(msg)), err)
	} else if hc.Message != msg+"\n" {
		return fmt.Errorf("commit -m %s stored the message %s", preview([]byte(msg)), preview([]byte(hc.Message)))
	}
	for id := range post.Objects {
		if pre.Objects[id] {
			continue
		}
		o, err := gitfmt.ReadObject(post.Store, id)
		if err != nil {
			return fmt.Errorf("object written by commit not readable independently: %v", err)
		}
		rt := b.Run("cat-file", "-t", id)
		if !rt.OK() || rt.Stdout != o.Kind+"\n" {
			return fmt.Errorf("cat-file -t %s: want %s, got %s", id, o.Kind, rt)
		}
		if o.Kind == "commit" {
			rp := b.Run("cat-file", "-p", id)
			if !rp.OK() || rp.Stdout != string(o.Data)+"\n" {
				return fmt.Errorf("cat-file -p of commit %s differs from stored bytes: %s", id, rp)
			}
		}
		stats.Nontrivial(o.Kind + ":" + id[:16])
	}
	for id, d := range known {
		o, err := gitfmt.ReadObject(post.Store, id)
		if err != nil || !bytes.Equal(o.Data, d) {
			return fmt.Errorf("blob %s damaged by commit: %v", id, err)
		}
	}
	// the zero-length tree: remove everything, commit, and retrieve what that commit refers to
	var names []string
	for i := range c.Files {
		names = append(names, fmt.Sprintf("f%d", i), fmt.Sprintf("f%d.copy", i))
	}
	if r := b.Run(append([]string{"rm"}, names...)...); !r.OK() {
		return fmt.Errorf("rm failed: %s", r)
	}
	rw := b.Run("write-tree")
	emptyTree := gitfmt.HashObject("tree", nil)
	if !rw.OK() || strings.TrimSpace(rw.Stdout) != emptyTree {
		return fmt.Errorf("write-tree on the empty staging area: want %s, got %s", emptyTree, rw)
	}
	if r := b.Run("commit", "-m", "emptied"); !r.OK() {
		return fmt.Errorf("commit of the emptied staging area failed: %s", r)
	}
	fin := Observe(b)
	cm, err := gitfmt.ReadCommit(fin.Store, fin.HeadCommit())
	if err != nil {
		return fmt.Errorf("commit object not stored intact: %v", err)
	}
	if cm.Tree != emptyTree {
		return fmt.Errorf("commit of the empty staging area names tree %s, the id of the zero-length tree is %s", cm.Tree, emptyTree)
	}
	if o, err := gitfmt.ReadObject(fin.Store, emptyTree); err != nil || o.Kind != "tree" || len(o.Data) != 0 {
		return fmt.Errorf("the zero-length tree %s cannot be retrieved from the store: %v", emptyTree, err)
	}
	if r := b.Run("cat-file", "-t", emptyTree); !r.OK() || r.Stdout != "tree\n" {
		return fmt.Errorf("cat-file -t of the zero-length tree: %s", r)
	}
	stats.Nontrivial("tree:empty")
	return nil
}

func init() {
	replayers["c01cli"] = func(_ string, raw json.RawMessage) error {
		var c c01Case
		if err := json.Unmarshal(raw, &c); err != nil {
			return err
		}
		return runC01(&c)
	}
}

func TestC01CLI(t *testing.T) {
	rapid.Check(t, func(rt *rapid.T) {
		g := &G{T: rt}
		n := g.Int(1, 3, "nfiles")
		c := &c01Case{}
		for i := 0; i < n; i++ {
			c.Files = append(c.Files, g.Content())
		}
		if g.Chance(50, "hostileMessage") {
			c.Message = g.Message(true)
			if strings.Contains(c.Message, "{{") {
				c.Message = "c01" // symbolic ids are resolved by the scenario engine only
			}
		}
		stats.Eval()
		stats.LabelIf(strings.Contains(c.Message, "\r"), "message:CR")
		stats.LabelIf(len(c.Message) > 65535, "message:line>64KiB")
		for _, f := range c.Files {
			stats.LabelIf(len(f) == 0, "content:empty")
			stats.LabelIf(len(f) > 4096, "content:>4KiB")
			stats.LabelIf(bytes.IndexByte(f, 0) >= 0, "content:has-NUL")
			stats.LabelIf(!utf8.Valid(f), "content:invalid-utf8")
		}
		if err := runC01(c); err != nil {
			findings.Save("C01", "c01cli", c, err)
			rt.Fatalf("C01 violated: %v", err)
		}
		if stats.WantSample() {
			var s []string
			for _, f := range c.Files {
				s = append(s, fmt.Sprintf("%d bytes %s", len(f), preview(f)))
			}
			stats.Sample(map[string]interface{}{"layer": "cli", "files": s})
		}
	})
}
