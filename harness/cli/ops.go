package cli

import (
	"bytes"
	"fmt"
	"sort"
	"strings"
	"testing"

	"github.com/JunNishimura/Goit/verifharness/core/findings"
	"github.com/JunNishimura/Goit/verifharness/core/stats"
	"pgregory.net/rapid"
)

// Weights gives the relative frequency of each operation kind in a profile.
type Weights map[string]int

type opGen struct {
	name    string
	enabled func(g *G) bool
	gen     func(g *G) Step
}

func goit(args ...string) Step { return Step{Op: "goit", Args: args} }

func hasCommit(g *G) bool  { return g.E.Cur.HeadCommit() != "" }
func hasFiles(g *G) bool   { return len(g.WorkFiles()) > 0 }
func hasTracked(g *G) bool { return len(g.E.Cur.IdxMap) > 0 }
func always(g *G) bool     { return true }

// deletedTracked lists tracked paths missing from the working tree.
func deletedTracked(g *G) []string {
	var xs []string
	for _, p := range g.E.Cur.Tracked() {
		if _, ok := g.E.Cur.Work.Files[p]; !ok && !g.E.Cur.Work.Dirs[p] && !underFile(g.E.Cur, p) {
			xs = append(xs, p)
		}
	}
	return xs
}

// underFile: some directory prefix of p is a regular file in the working tree.
func underFile(o *Obs, p string) bool {
	for i := 0; i < len(p); i++ {
		if p[i] == '/' {
			if _, ok := o.Work.Files[p[:i]]; ok {
				return true
			}
		}
	}
	return false
}

// absSpelling renders an existing path absolutely or through the parent directory (add accepts both).
func (g *G) absSpelling(p string) string {
	if !g.E.decorateArgs || !g.Chance(12, "absSpelling") {
		return p
	}
	if g.Bool("viaParent") {
		return "../w/" + p
	}
	return "{{work}}/" + p // resolved when the step runs (engine.go, resolve)
}

// decorate renders a clean relative path in a non-canonical but equivalent spelling.
func (g *G) decorate(p string) string {
	if !g.E.decorateArgs || strings.HasPrefix(p, "/") || strings.HasPrefix(p, "{{work}}") || strings.HasPrefix(p, "../") || !g.Chance(25, "decorate") {
		return p
	}
	nsp := 3
	if g.E.P != nil && g.E.P.ID == "C04" {
		nsp = 6 // the stage oracles know that a spelling which only resolves lexically may also be refused
	}
	switch g.Int(0, nsp, "spelling") {
	case 4:
		// spellings that only a lexical clean-up resolves (stat of the raw text fails): they name p all the same
		return p + "/"
	case 5:
		return "nosuchdir/../" + p
	case 6:
		if fs := g.WorkFiles(); len(fs) > 0 {
			return g.Pick(fs, "fileAsDir") + "/../" + p // a regular file used like a directory; only right at top level
		}
		return p + "/."
	case 0:
		if g.Bool("throughGoit") && g.E.Cur.HasGoit {
			return ".goit/../" + p // a detour through the metadata directory names the same path
		}
		return "./" + p
	case 1:
		if i := strings.Index(p, "/"); i > 0 {
			return p[:i] + "//" + p[i+1:]
		}
		return "./" + p
	case 2:
		if i := strings.Index(p, "/"); i > 0 {
			return p[:i] + "/./" + p[i+1:]
		}
		return "./" + p
	default:
		if i := strings.LastIndex(p, "/"); i > 0 {
			return p[:i] + "/../" + p[strings.LastIndex(p[:i], "/")+1:]
		}
		return "./" + p
	}
}

// reflogLen is the number of entries `goit reflog` would list (an estimate from
// the raw log: used only to draw positions; the oracles parse the real output).
func reflogLen(g *G) int { return len(g.E.Cur.LogLines()) }

var ops = []opGen{
	{"write-new", always, func(g *G) Step { return Step{Op: "write", Path: g.NewPath(), Data: g.contentFor()} }},
	{"modify", hasFiles, func(g *G) Step {
		return Step{Op: "write", Path: g.Pick(g.WorkFiles(), "file"), Data: g.contentFor()}
	}},
	{"rewrite-same", hasFiles, func(g *G) Step {
		p := g.Pick(g.WorkFiles(), "file")
		return Step{Op: "write", Path: p, Data: []byte(g.E.Cur.Work.Files[p]), Note: "identical"}
	}},
	{"revert", func(g *G) bool { return len(revertible(g)) > 0 }, func(g *G) Step {
		// the file goes back to bytes it held earlier (a blob with that id is usually stored already)
		p := g.Pick(revertible(g), "revertPath")
		olds := g.E.H.Contents[p]
		cur := g.E.Cur.Work.Files[p]
		var cands []string
		for _, o := range olds {
			if o != cur {
				cands = append(cands, o)
			}
		}
		return Step{Op: "write", Path: p, Data: []byte(g.Pick(cands, "olderContent")), Note: "revert"}
	}},
	{"touch", hasFiles, func(g *G) Step { return Step{Op: "touch", Path: g.Pick(g.WorkFiles(), "file")} }},
	{"remove-file", hasFiles, func(g *G) Step { return Step{Op: "remove", Path: g.Pick(g.WorkFiles(), "file")} }},
	{"recreate", func(g *G) bool { return len(deletedTracked(g)) > 0 }, func(g *G) Step {
		return Step{Op: "write", Path: g.Pick(deletedTracked(g), "deleted"), Data: g.contentFor()}
	}},
	{"file2dir", func(g *G) bool { return len(trackedFilesOnDisk(g)) > 0 }, func(g *G) Step {
		return Step{Op: "file2dir", Path: g.Pick(trackedFilesOnDisk(g), "trackedFile"), Args: []string{g.DirComponent()}, Data: g.SmallContent()}
	}},
	{"copydir", func(g *G) bool { return len(g.WorkDirs()) > 0 }, func(g *G) Step {
		src := g.Pick(g.WorkDirs(), "srcDir")
		for try := 0; try < 10; try++ {
			dst := g.DirComponent()
			if par := parentOf(src); par != "" && g.Bool("sameParent") {
				dst = par + "/" + dst
			}
			if dst != src && !strings.HasPrefix(dst, src+"/") && !g.E.Cur.Work.Dirs[dst] && g.pathUsable(dst) && g.pathUsable(dst+"/x") {
				return Step{Op: "copydir", Path: src, Args: []string{dst}}
			}
		}
		return Step{Op: "write", Path: g.NewPath(), Data: g.contentFor()}
	}},
	{"recreate-unstaged", func(g *G) bool { return len(unstagedGone(g)) > 0 }, func(g *G) Step {
		// a path that was staged or committed before, is no longer staged and no longer on disk, comes back as a new file
		return Step{Op: "write", Path: g.Pick(unstagedGone(g), "unstagedGone"), Data: g.contentFor()}
	}},
	{"dir-at-unstaged-file", func(g *G) bool { return len(unstagedGone(g)) > 0 }, func(g *G) Step {
		// where a tracked FILE used to be (it was removed from the staging area and from disk) a DIRECTORY comes into
		// being: histories in which one name is a file in one commit and a directory in another
		p := g.Pick(unstagedGone(g), "unstagedGone")
		for q := range g.E.Cur.IdxMap {
			if strings.HasPrefix(p, q+"/") {
				return Step{Op: "write", Path: g.NewPath(), Data: g.contentFor()} // an ancestor is staged as a file
			}
		}
		return Step{Op: "write", Path: p + "/" + g.Component(), Data: g.contentFor()}
	}},
	{"file-at-unstaged-dir", func(g *G) bool { return len(unstagedGoneDirs(g)) > 0 }, func(g *G) Step {
		// the reverse: a directory whose tracked files were all removed comes back as a regular file of the same name
		return Step{Op: "write", Path: g.Pick(unstagedGoneDirs(g), "unstagedGoneDir"), Data: g.contentFor()}
	}},
	{"commit-repeat-message", func(g *G) bool { return len(g.E.H.Order) > 0 }, func(g *G) Step {
		// the same message as an earlier commit: after `reset --soft` to its parent (or on a branch made from it) the new
		// commit can be byte-identical to one that is already stored, if it is made within the same second
		id := g.Pick(g.E.H.Order, "earlierCommit")
		return goit("commit", "-m", strings.TrimSuffix(g.E.H.Commits[id].Message, "\n"))
	}},
	{"write-big-twin", always, func(g *G) Step {
		// contents above 1 MiB, the SAME bytes under several paths (one blob checked out more than once by one command)
		data := bytes.Repeat([]byte("big twin content 0123456789abcdef\n"), 36000)
		return Step{Op: "write", Path: g.NewPath(), Data: data}
	}},
	{"write-temp-sibling", hasTracked, func(g *G) Step {
		// an UNTRACKED file whose name is what a tool would choose for a temporary or backup copy of a tracked file
		// (a command that rewrites tracked files must not use, truncate or remove such a neighbour)
		t := g.Pick(g.E.Cur.Tracked(), "tracked")
		p := t + g.Pick([]string{".tmp", "~", ".lock", ".orig", ".new", ".bak", ".swp", ".tmp~"}, "tempSuffix")
		if g.Chance(20, "dotted") {
			i := strings.LastIndex(t, "/")
			p = t[:i+1] + "." + t[i+1:] + ".tmp"
		}
		if g.E.H.EverStaged[p] || !g.pathUsable(p) {
			p = g.NewPath()
		}
		return Step{Op: "write", Path: p, Data: g.contentFor()}
	}},
	{"rmdir", func(g *G) bool { return len(g.WorkDirs()) > 0 }, func(g *G) Step {
		return Step{Op: "rmdir", Path: g.Pick(g.WorkDirs(), "dir")}
	}},
	{"add", func(g *G) bool { return hasFiles(g) || hasTracked(g) }, genAdd},
	{"add-invalid", always, func(g *G) Step {
		args := []string{g.NewPath()}
		if hasFiles(g) && g.Bool("mix") {
			args = append([]string{g.Pick(g.WorkFiles(), "file")}, args...)
		}
		return Step{Op: "goit", Args: append([]string{"add"}, args...), Note: "invalid"}
	}},
	{"rm", hasTracked, genRm},
	{"rm-invalid", always, func(g *G) Step {
		args := []string{g.NewPath()}
		if hasTracked(g) && g.Bool("mix") {
			args = append([]string{g.Pick(g.E.Cur.Tracked(), "tracked")}, args...)
		}
		return Step{Op: "goit", Args: append([]string{"rm"}, args...), Note: "invalid"}
	}},
	{"commit", always, func(g *G) Step { return goit("commit", "-m", g.Message(g.E.hostileMsgs || g.Chance(20, "hostileMessageAnyway"))) }},
	{"restore", hasTracked, func(g *G) Step { return genRestore(g, false) }},
	{"restore-staged", hasCommit, func(g *G) Step { return genRestore(g, true) }},
	{"restore-invalid", always, func(g *G) Step {
		args := []string{"restore"}
		if hasCommit(g) && g.Bool("staged") {
			args = append(args, "--staged")
		}
		unknown := g.NewPath()
		if ts := g.E.Cur.Tracked(); len(ts) > 0 && g.Chance(35, "beneathTrackedFile") {
			unknown = g.Pick(ts, "tracked") + "/" + g.DirComponent() // a path beneath a tracked FILE is known to nobody
		}
		return Step{Op: "goit", Args: append(args, unknown), Note: "invalid"}
	}},
	{"reset", hasCommit, genReset},
	{"reset-invalid", hasCommit, genResetInvalid},
	{"branch", hasCommit, func(g *G) Step {
		if n := g.FreeBranch(); n != "" && g.Chance(85, "free") {
			return goit("branch", n)
		}
		return Step{Op: "goit", Args: []string{"branch", g.Pick(g.E.Cur.BranchNames(), "dup")}, Note: "invalid"}
	}},
	{"branch-d", hasCommit, func(g *G) Step {
		if n := g.OtherBranch(); n != "" && g.Chance(75, "valid") {
			return goit("branch", "-d", n)
		}
		if g.Bool("current") {
			return Step{Op: "goit", Args: []string{"branch", "-d", g.E.Cur.HeadBr}, Note: "invalid"}
		}
		n := g.FreeBranch()
		if n == "" || strings.Contains(n, "{{") {
			n = "nosuch" // (a symbolic name may resolve to a branch that exists)
		}
		return Step{Op: "goit", Args: []string{"branch", "-d", n}, Note: "invalid"}
	}},
	{"branch-r", hasCommit, func(g *G) Step {
		if findings.Open("rename-zero-id-reflog") {
			stats.Excluded("rename-zero-id-reflog")
			return goit("branch", "--list")
		}
		if n := g.FreeBranch(); n != "" && g.Chance(80, "free") {
			return goit("branch", "-r", n)
		}
		return Step{Op: "goit", Args: []string{"branch", "-r", g.Pick(g.E.Cur.BranchNames(), "dup")}, Note: "invalid"}
	}},
	{"switch", hasCommit, func(g *G) Step {
		if n := g.OtherBranch(); n != "" && g.Chance(80, "valid") {
			return goit("switch", n)
		}
		if g.Bool("self") {
			return goit("switch", g.E.Cur.HeadBr)
		}
		n := g.FreeBranch()
		if n == "" || strings.Contains(n, "{{") {
			n = "nosuch"
		}
		return Step{Op: "goit", Args: []string{"switch", n}, Note: "invalid"}
	}},
	{"switch-c", hasCommit, func(g *G) Step {
		if n := g.FreeBranch(); n != "" && g.Chance(85, "free") {
			return goit("switch", "-c", n)
		}
		return Step{Op: "goit", Args: []string{"switch", "-c", g.Pick(g.E.Cur.BranchNames(), "dup")}, Note: "invalid"}
	}},
	{"update-ref", func(g *G) bool { return len(g.E.H.Order) > 0 }, func(g *G) Step {
		b := g.Pick(g.E.Cur.BranchNames(), "branch")
		return goit("update-ref", "refs/heads/"+b, fmt.Sprintf("@commit#%d", g.Int(0, len(g.E.H.Order)-1, "commitIdx")))
	}},
	{"status", always, func(g *G) Step { return goit("status") }},
	{"tz", always, func(g *G) Step {
		lo := -48
		if findings.Open("negative-utc-offset") {
			stats.Excluded("negative-utc-offset")
			lo = 0
		}
		return Step{Op: "tz", TZ: 15 * g.Int(lo, 56, "quarter")}
	}},
}

func (g *G) contentFor() []byte {
	if g.E.fullContent {
		return g.Content()
	}
	return g.SmallContent()
}

// genAdd: 1..3 arguments mixing files, directories, deleted-but-tracked paths, repeats.
func genAdd(g *G) Step {
	n := g.Int(1, 3, "nargs")
	var args []string
	files := g.WorkFiles()
	dirs := g.WorkDirs()
	del := deletedTracked(g)
	for _, p := range g.E.Cur.Tracked() {
		// tracked paths whose parent directory was replaced by a regular file are gone too (stat answers ENOTDIR, not ENOENT)
		if underFile(g.E.Cur, p) {
			del = append(del, p)
		}
	}
	for i := 0; i < n; i++ {
		var cands [][]string
		var ws []int
		if len(files) > 0 {
			cands, ws = append(cands, files), append(ws, 50)
		}
		if len(dirs) > 0 {
			cands, ws = append(cands, dirs), append(ws, 25)
		}
		if len(del) > 0 {
			cands, ws = append(cands, del), append(ws, 25)
		}
		if len(args) > 0 {
			cands, ws = append(cands, args), append(ws, 10)
		}
		if len(cands) == 0 {
			break
		}
		c := cands[g.Weighted(ws, "argClass")]
		a := g.Pick(c, "arg")
		if len(args) > 0 && g.Chance(30, "relatedToEarlierArg") {
			// an argument whose spelling starts with an earlier argument without lying beneath it (lib, then lib2/b.c or lib.txt),
			// or that lies beneath it: arguments of one call must be handled independently of each other
			first := args[0]
			var rel []string
			for _, x := range append(append([]string{}, files...), dirs...) {
				if x != first && strings.HasPrefix(x, first) {
					rel = append(rel, x)
				}
			}
			if len(rel) > 0 {
				a = g.Pick(rel, "relatedArg")
			}
		}
		if g.E.Cur.Work.Dirs[a] || hasFile(g.E.Cur, a) {
			a = g.absSpelling(a)
		}
		args = append(args, g.decorate(a))
	}
	if len(args) == 0 {
		return Step{Op: "goit", Args: []string{"add"}, Note: "invalid"}
	}
	return goit(append([]string{"add"}, args...)...)
}

func genRm(g *G) Step {
	n := g.Int(1, 2, "nargs")
	tracked := g.E.Cur.Tracked()
	tdirs := trackedDirs(tracked)
	var args []string
	for i := 0; i < n; i++ {
		switch {
		case len(tdirs) > 0 && g.Chance(35, "dir"):
			args = append(args, g.decorate(g.Pick(tdirs, "tdir")))
		case len(args) > 0 && g.Chance(10, "repeat"):
			args = append(args, args[0])
		default:
			args = append(args, g.decorate(g.Pick(tracked, "tracked")))
		}
	}
	return goit(append([]string{"rm"}, args...)...)
}

func genRestore(g *G, staged bool) Step {
	cur := g.E.Cur
	var cands []string
	if staged {
		set := map[string]bool{}
		for p := range cur.IdxMap {
			set[p] = true
		}
		if hs, err := cur.HeadSnapshot(); err == nil {
			for p := range hs {
				set[p] = true
			}
		}
		cands = sortedSet(set)
	} else {
		cands = cur.Tracked()
	}
	if len(cands) == 0 {
		return goit("status")
	}
	dirs := trackedDirs(cands)
	args := []string{"restore"}
	if staged {
		args = append(args, "--staged")
	}
	n := g.Int(1, 2, "nargs")
	for i := 0; i < n; i++ {
		if len(dirs) > 0 && g.Chance(40, "dir") {
			args = append(args, g.decorate(g.Pick(dirs, "dir")))
		} else {
			args = append(args, g.decorate(g.Pick(cands, "path")))
		}
	}
	return goit(args...)
}

func resetMode(g *G) []string {
	switch g.Int(0, 3, "mode") {
	case 0:
		return []string{"--soft"}
	case 1:
		return []string{"--mixed"}
	case 2:
		return []string{"--hard"}
	}
	return nil
}

func genReset(g *G) Step {
	n := reflogLen(g)
	pos := 0
	if n > 1 {
		pos = g.Int(0, n-1, "pos")
	}
	if pos >= 10 && findings.Open("reset-single-digit") {
		stats.Excluded("reset-single-digit")
		pos = pos % 10
	}
	args := append([]string{"reset"}, resetMode(g)...)
	if g.Chance(12, "zeroPadded") {
		// the argument pattern admits leading zeros; the number is decimal all the same (08, 010)
		return goit(append(args, fmt.Sprintf("HEAD@{%s%d}", g.Pick([]string{"0", "00"}, "pad"), pos))...)
	}
	return goit(append(args, fmt.Sprintf("HEAD@{%d}", pos))...)
}

func genResetInvalid(g *G) Step {
	n := reflogLen(g)
	bad := []string{"HEAD", "HEAD@{}", "HEAD@{a}", "HEAD@{-1}", "xHEAD@{0}", "HEAD@{0}x", fmt.Sprintf("HEAD@{%d}", n), fmt.Sprintf("HEAD@{%d}", n+7), "HEAD@{99999999999999999999}", "", "head@{0}", "HEAD@{0", "HEAD@{ 0}"}
	args := append([]string{"reset"}, resetMode(g)...)
	switch g.Int(0, 9, "shape") {
	case 0:
		// no argument
	case 1:
		args = append(args, "HEAD@{0}", "HEAD@{0}")
	default:
		args = append(args, g.Pick(bad, "bad"))
	}
	return Step{Op: "goit", Args: args, Note: "invalid"}
}

// nextStep draws an operation among the enabled ones according to the weights.
func nextStep(g *G, w Weights) Step {
	var names []string
	for n := range w {
		names = append(names, n)
	}
	sort.Strings(names)
	var cand []opGen
	var ws []int
	for _, n := range names {
		if w[n] <= 0 {
			continue
		}
		for _, o := range ops {
			if o.name == n && o.enabled(g) {
				cand = append(cand, o)
				ws = append(ws, w[n])
			}
		}
	}
	if len(cand) == 0 {
		return goit("status") // none of the requested operations is enabled in this state
	}
	o := cand[g.Weighted(ws, "op")]
	st := o.gen(g)
	stats.Label("op:" + o.name)
	return st
}

// prelude: init + identity (local, global or both with different values).
func prelude(g *G) []Step {
	name, email := "Test User", "test@example.com"
	if g.Chance(40, "drawnIdentity") {
		name, email = g.UserName(), g.Email()
		if g.Chance(8, "nameHoldsEmail") {
			name = g.Pick([]string{email, "Al Ice (" + email + ")", email + " jr"}, "nameWithEmail")
		}
	}
	st := []Step{goit("init")}
	switch g.Int(0, 3, "identMode") {
	case 0:
		st = append(st, goit("config", "user.name", name), goit("config", "user.email", email))
	case 1:
		st = append(st, goit("config", "--global", "user.name", name), goit("config", "--global", "user.email", email))
	case 2:
		st = append(st, goit("config", "--global", "user.name", "Global Name"), goit("config", "--global", "user.email", "global@example.org"),
			goit("config", "user.name", name), goit("config", "user.email", email))
	default:
		st = append(st, goit("config", "--global", "user.name", name), goit("config", "user.email", email))
	}
	return st
}

// unstagedGone lists paths that were staged at some time, are not staged now and do not exist on disk.
func unstagedGone(g *G) []string {
	var xs []string
	for p := range g.E.H.EverStaged {
		if _, staged := g.E.Cur.IdxMap[p]; staged {
			continue
		}
		if hasFile(g.E.Cur, p) || g.E.Cur.Work.Dirs[p] || underFile(g.E.Cur, p) {
			continue
		}
		xs = append(xs, p)
	}
	sort.Strings(xs)
	return xs
}

// unstagedGoneDirs lists directories that held staged paths at some time, hold none now and do not exist on disk.
func unstagedGoneDirs(g *G) []string {
	set := map[string]bool{}
	for p := range g.E.H.EverStaged {
		for i := 0; i < len(p); i++ {
			if p[i] == '/' {
				set[p[:i]] = true
			}
		}
	}
	var xs []string
	for d := range set {
		if hasFile(g.E.Cur, d) || g.E.Cur.Work.Dirs[d] || underFile(g.E.Cur, d) {
			continue
		}
		if _, staged := g.E.Cur.IdxMap[d]; staged {
			continue
		}
		busy := false
		for q := range g.E.Cur.IdxMap {
			if strings.HasPrefix(q, d+"/") || strings.HasPrefix(d, q+"/") {
				busy = true
			}
		}
		if !busy {
			xs = append(xs, d)
		}
	}
	sort.Strings(xs)
	return xs
}

// revertible lists files on disk that have held other bytes before.
func revertible(g *G) []string {
	var xs []string
	for _, p := range g.WorkFiles() {
		n := 0
		for _, o := range g.E.H.Contents[p] {
			if o != g.E.Cur.Work.Files[p] {
				n++
			}
		}
		if n > 0 {
			xs = append(xs, p)
		}
	}
	return xs
}

func trackedFilesOnDisk(g *G) []string {
	var xs []string
	for _, p := range g.E.Cur.Tracked() {
		if _, ok := g.E.Cur.Work.Files[p]; ok {
			xs = append(xs, p)
		}
	}
	return xs
}

type runOpts struct {
	decorate bool
	weights     Weights
	hostileMsgs bool
	fullContent bool
	seedFiles   int // files written (and maybe added) right after the prelude
	pre         func(g *G) []Step
}

// runProfile is the rapid property shared by the scenario-machine checks.
func runProfile(t *testing.T, p *Profile, o runOpts) {
	rapid.Check(t, func(rt *rapid.T) {
		e := NewExec(p)
		defer e.Close()
		e.hostileMsgs, e.fullContent, e.decorateArgs = o.hostileMsgs, o.fullContent, o.decorate
		g := &G{T: rt, E: e}
		stats.Eval()
		do := func(st Step) {
			if err := e.Do(st); err != nil {
				if _, ok := err.(*Violation); ok {
					rt.Fatalf("%s", fail(p, e.Sc, err))
				}
				panic(fmt.Sprintf("%v\nscenario:\n  %s", err, strings.Join(e.Sc.Render(), "\n  ")))
			}
		}
		for _, st := range prelude(g) {
			do(st)
		}
		if o.pre != nil {
			for _, st := range o.pre(g) {
				do(st)
			}
		}
		for i := 0; i < o.seedFiles; i++ {
			do(Step{Op: "write", Path: g.NewPath(), Data: g.contentFor()})
		}
		rt.Repeat(map[string]func(*rapid.T){
			"step": func(rt *rapid.T) {
				g := &G{T: rt, E: e}
				do(nextStep(g, o.weights))
			},
		})
		if err := e.Finish(); err != nil {
			rt.Fatalf("%s", fail(p, e.Sc, err))
		}
		sampleScenario(e.Sc)
	})
}

func joinArgs(a []string) string { return strings.Join(a, " ") }
