package cli

import (
	"encoding/json"
	"fmt"
	"os"
	"pgregory.net/rapid"
	"sort"
	"strconv"
	"strings"
	"testing"

	"github.com/JunNishimura/Goit/verifharness/core/findings"
	"github.com/JunNishimura/Goit/verifharness/core/gitfmt"
	"github.com/JunNishimura/Goit/verifharness/core/sbx"
	"github.com/JunNishimura/Goit/verifharness/core/stats"
)

type corpusState struct {
	Name     string
	Setup    []Step
	Commands [][]string
}

func wr(p, d string) Step { return Step{Op: "write", Path: p, Data: []byte(d)} }

// faultCorpus: hand-picked repository states with the modifying commands that make sense in them.
func faultCorpus() []corpusState {
	ident := []Step{goit("init"), goit("config", "user.name", "Test User"), goit("config", "--global", "user.email", "test@example.com")}
	files := []Step{wr("a.txt", "one\n"), wr("dir/b.txt", "two\n"), wr("dir/sub/c d.txt", "three\n"), wr("dir/tail/e.txt", "3b\n"), wr("dir-x", "four\n"), wr("zz/y.txt", "last\n")}
	added := append(append(append([]Step{}, ident...), files...), goit("add", "a.txt", "dir", "dir-x", "zz"))
	c1 := append(append([]Step{}, added...), goit("commit", "-m", "first"))
	changed := append(append([]Step{}, c1...), wr("a.txt", "one changed\n"), wr("new/e.txt", "five\n"), wr("new/deep/er/f.txt", "nested\n"), Step{Op: "remove", Path: "dir/b.txt"})
	staged2 := append(append([]Step{}, changed...), goit("add", "a.txt", "new", "dir/b.txt"))
	c2 := append(append([]Step{}, staged2...), goit("commit", "-m", "second: with colon"))
	two := append(append([]Step{}, c2...), goit("branch", "topic"), goit("switch", "-c", "feature"), wr("f.txt", "six\n"), goit("add", "f.txt"), goit("commit", "-m", "third on feature"))
	afterReset := append(append([]Step{}, two...), goit("reset", "--hard", "HEAD@{2}"), wr("a.txt", "dirty\n"), Step{Op: "rmdir", Path: "dir"})
	renamed := append(append([]Step{}, c2...), goit("branch", "-r", "trunk"), goit("branch", "old"))
	emptied := append(append([]Step{}, c1...), goit("rm", "a.txt", "dir", "dir-x", "zz"))
	ignoring := append(append(append([]Step{}, ident...), files...), wr(".goitignore", "*.log\nbuild/\n"), wr("dir/debug.log", "noise\n"), wr("build/out.o", "obj\n"), wr("top.log", "x\n"))
	ignoringC1 := append(append([]Step{}, ignoring...), goit("add", "."), goit("commit", "-m", "first"), wr("a.txt", "changed\n"), wr("build/more.o", "obj2\n"))
	return []corpusState{
		{"ignore-file-fresh", ignoring, [][]string{{"add", "."}, {"add", "dir", "build"}, {"add", "dir/debug.log", "a.txt"}}},
		{"ignore-file-one-commit", ignoringC1, [][]string{{"add", "."}, {"add", "a.txt", "build"}, {"reset", "--hard", "HEAD@{0}"}, {"restore", "a.txt"}}},
		{"no-repository", nil, [][]string{{"init"}}},
		{"fresh", []Step{goit("init")}, [][]string{{"config", "user.name", "A B"}, {"config", "--global", "user.email", "a@b.cc"}}},
		{"configured-fresh", append(append([]Step{}, ident...), files...), [][]string{{"add", "a.txt"}, {"add", "a.txt", "dir", "dir-x"}, {"add", "."}, {"add", "dir", "zz"}, {"config", "user.name", "x=y"}}},
		{"first-commit-pending", added, [][]string{{"commit", "-m", "first"}, {"rm", "dir"}, {"restore", "dir"}}},
		{"one-commit-dirty", changed, [][]string{{"add", "a.txt", "new", "dir/b.txt"}, {"rm", "dir"}, {"rm", "dir-x", "a.txt"}, {"restore", "a.txt", "dir"}, {"branch", "topic"}, {"switch", "-c", "topic"}}},
		{"second-commit-pending", staged2, [][]string{{"commit", "-m", "second"}, {"restore", "--staged", "a.txt", "new", "dir"}, {"reset", "--mixed", "HEAD@{0}"}, {"reset", "--hard", "HEAD@{0}"}}},
		{"two-commits", c2, [][]string{{"reset", "--soft", "HEAD@{1}"}, {"reset", "--mixed", "HEAD@{1}"}, {"reset", "--hard", "HEAD@{1}"}, {"branch", "-r", "trunk"}, {"branch", "b2"}}},
		{"three-branches", two, [][]string{{"branch", "alpha"}, {"switch", "-c", "aaa"}, {"branch", "zz"}, {"switch", "main"}, {"switch", "topic"}, {"branch", "-d", "topic"}, {"branch", "-r", "renamed"}, {"reset", "--hard", "HEAD@{1}"}, {"update-ref", "refs/heads/topic", "@feature"}, {"update-ref", "refs/heads/feature", "@main"}}},
		{"after-reset-dirty", afterReset, [][]string{{"restore", "dir", "a.txt"}, {"reset", "--hard", "HEAD@{0}"}, {"add", "a.txt"}, {"rm", "dir-x"}}},
		{"renamed-branch", renamed, [][]string{{"switch", "old"}, {"branch", "-d", "old"}, {"reset", "--soft", "HEAD@{1}"}, {"branch", "-r", "main"}}},
		{"emptied-staging-area", emptied, [][]string{{"commit", "-m", "everything removed"}, {"restore", "--staged", "dir"}}},
	}
}

// readOnlyCorpus: read-only commands, enumerated for C16 in every state that has a repository with content.
var readOnlyCorpus = [][]string{{"status"}, {"log"}, {"log", "-n", "2"}, {"reflog"}, {"ls-files", "-s"}, {"branch", "--list"}, {"rev-parse", "HEAD"}, {"cat-file", "-p", "@HEAD"}, {"write-tree"}}

// refusedCorpus: commands that are refused fault-free (exit 1, nothing changes), enumerated for C16 in the state
// "three-branches": a failed read or write must not turn a refusal into a half-done change.
var refusedCorpus = [][]string{{"update-ref", "refs/heads/topic", "@blob:a.txt"}, {"update-ref", "refs/heads/topic", "@tree"}, {"update-ref", "refs/heads/nosuch", "@main"},
	{"branch", "topic"}, {"branch", "-d", "feature"}, {"branch", "-d", "nosuch"}, {"branch", "-r", "main"}, {"switch", "nosuch"}, {"switch", "-c", "topic"},
	{"reset", "--hard", "HEAD@{99}"}, {"rm", "nosuch"}, {"add", "nosuch"}, {"restore", "nosuch"}, {"commit", "-m", "nothing staged"}}

// resolveArgs replaces "@<branch>" by the commit id that branch holds in the prepared state.
func resolveArgs(o *Obs, cmd []string) []string {
	out := append([]string{}, cmd...)
	for i, a := range out {
		if a == "@HEAD" {
			out[i] = o.HeadCommit()
		} else if strings.HasPrefix(a, "@blob:") {
			out[i] = o.IdxMap[a[6:]]
		} else if a == "@tree" {
			if cm, err := gitfmt.ReadCommit(o.Store, o.HeadCommit()); err == nil {
				out[i] = cm.Tree
			}
		} else if strings.HasPrefix(a, "@") {
			out[i] = o.Branches[a[1:]]
		}
	}
	return out
}

func faultReplayer(pid string) func(string, json.RawMessage) error {
	return func(property string, raw json.RawMessage) error {
		var c faultCase
		if err := json.Unmarshal(raw, &c); err != nil {
			return err
		}
		p, err := prepare(c.Setup, c.Command)
		if err != nil {
			return fmt.Errorf("REPLAY-INFRA: %v", err)
		}
		defer p.close()
		cmd := p.cmd
		if c.AtOp != "" {
			want, nth := c.AtOp, 1
			if i := strings.Index(want, "#"); i >= 0 {
				nth, _ = strconv.Atoi(want[i+1:])
				want = want[:i]
			}
			found := false
			for _, o := range p.ffOps {
				if fileClass(p.base.Box, remapRoot(o.Path, p))+":"+o.Kind == want {
					nth--
					if nth == 0 {
						found = true
						if property == "C15" {
							c.CrashAt = o.Mod
						} else {
							c.FailAt = o.Fault
						}
						break
					}
				}
			}
			if !found {
				return nil // the operation no longer exists in this command: the pinned window is gone
			}
		}
		var v *faultViolation
		if c.CrashAt > 0 {
			v, _ = p.runCrashPoint(cmd, c.CrashAt)
		} else {
			v, _ = p.runFaultPoint(cmd, c.FailAt)
		}
		if v != nil {
			return v
		}
		return nil
	}
}

// remapRoot: the fault-free run happened in a clone of the base box; map its paths back to the base box.
func remapRoot(path string, p *prepared) string {
	if i := strings.Index(path, "/w/"); i >= 0 {
		return p.base.Box.Work + path[i+2:]
	}
	if i := strings.Index(path, "/home/"); i >= 0 && strings.Contains(path[:i], "case") {
		return p.base.Box.Home + path[i+5:]
	}
	return path
}

func init() {
	replayers["c15"] = faultReplayer("C15")
	replayers["c16"] = faultReplayer("C16")
}

func shardInfo() (int, int) {
	shard, _ := strconv.Atoi(os.Getenv("VERIF_SHARD"))
	nsh, _ := strconv.Atoi(os.Getenv("VERIF_NSHARDS"))
	if nsh < 1 {
		nsh = 1
	}
	return shard, nsh
}

// enumerate runs every crash point (C15) or every single-fault position (C16) of every
// (state, command) of the corpus. Work is split over shards by (state, command) index.
func enumerate(t *testing.T, pid string) {
	shard, nsh := shardInfo()
	idx := 0
	skipped := 0
	classes := map[string]int{}
	var firstErr error
	var sigs = map[string]int{}
	for _, st := range faultCorpus() {
		cmds := st.Commands
		if pid == "C16" && len(st.Setup) > 3 {
			// reads are faultable too: the read-only commands must report a failed read, not print less
			cmds = append(append([][]string{}, cmds...), readOnlyCorpus...)
		}
		nRO := len(cmds)
		if pid == "C16" && st.Name == "three-branches" {
			cmds = append(cmds, refusedCorpus...)
		}
		for ci, cmd0 := range cmds {
			readOnly := ci >= len(st.Commands) && ci < nRO
			refused := ci >= nRO
			idx++
			if idx%nsh != shard {
				continue
			}
			p, err := prepare(st.Setup, cmd0)
			if err != nil {
				t.Fatalf("harness: cannot build state %s: %v", st.Name, err)
			}
			cmd := p.cmd
			if p.ffRes.Exit != 0 && readOnly {
				p.close()
				continue // e.g. log before the first commit: nothing to enumerate
			}
			if refused {
				unchanged := len(sbx.Diff(p.pre.Goit, p.post.Goit, nil)) == 0 && len(sbx.DiffFiles(p.pre.Work, p.post.Work, nil)) == 0
				if p.ffRes.Exit != 1 || !unchanged {
					// not refused cleanly on this tree: other properties judge that, nothing to enumerate here
					stats.Note(fmt.Sprintf("command %v is not refused fault-free (exit %d, unchanged=%v): not enumerated", cmd0, p.ffRes.Exit, unchanged))
					p.close()
					continue
				}
				stats.Label("refused-command")
			}
			if p.ffRes.Exit != 0 && !refused {
				// the corpus is built so that every command succeeds fault-free on a tree where the basic
				// commands work; if it does not, this check cannot say anything about that pair
				stats.Note(fmt.Sprintf("corpus command %v in state %s does not succeed fault-free (exit %d): skipped", cmd0, st.Name, p.ffRes.Exit))
				stats.Extra("corpus_pairs_skipped", 1)
				skipped++
				p.close()
				continue
			}
			stats.Extra("corpus_pairs_enumerated", 1)
			n := p.nMod
			if pid == "C16" {
				n = p.nFault
			}
			for k := 1; k <= n; k++ {
				var v *faultViolation
				var class string
				if pid == "C15" {
					v, class = p.runCrashPoint(cmd, k)
				} else {
					v, class = p.runFaultPoint(cmd, k)
				}
				if class == "not-reached" {
					continue
				}
				stats.Eval()
				classes[class]++
				stats.Nontrivial(class)
				stats.Label("command:" + cmdKind(cmd))
				if v != nil {
					sigs[v.Sig]++
				}
				if err := countFault(v, pid); err != nil && firstErr == nil {
					fc := &faultCase{State: st.Name, Setup: st.Setup, Command: cmd0}
					if pid == "C15" {
						fc.CrashAt = k
					} else {
						fc.FailAt = k
					}
					findings.Save(pid, strings.ToLower(pid), fc, err)
					firstErr = fmt.Errorf("%s violated in state %q: %v", pid, st.Name, err)
				}
				if stats.WantSample() && k == n/2+1 {
					stats.Sample(map[string]interface{}{"state": st.Name, "command": cmd0, "point": k, "of": n, "class": class})
				}
			}
			p.close()
		}
	}
	if os.Getenv("VERIF_PRINT_SIGS") != "" {
		var ks []string
		for s := range sigs {
			ks = append(ks, s)
		}
		sort.Strings(ks)
		for _, s := range ks {
			fmt.Fprintf(os.Stderr, "SIG %4d %s\n", sigs[s], s)
		}
	}
	if firstErr != nil {
		t.Fatal(firstErr)
	}
	if skipped > 0 {
		// exit code 3 of the test binary = inconclusive (the driver maps it to exit 2)
		fmt.Fprintf(os.Stderr, "INCONCLUSIVE-CORPUS: %d corpus pairs do not run fault-free on this tree\n", skipped)
	}
}

func TestC15Corpus(t *testing.T) { enumerate(t, "C15") }
func TestC16Corpus(t *testing.T) { enumerate(t, "C16") }

// modifying commands drawn for random states
var faultCmdWeights = Weights{"add": 20, "rm": 8, "commit": 18, "restore": 6, "restore-staged": 6, "reset": 12, "branch": 5, "branch-d": 4, "branch-r": 5,
	"switch": 5, "switch-c": 4, "update-ref": 4, "config-set": 3, "add-dot": 3}

var faultPrefixWeights = Weights{"write-new": 20, "modify": 10, "remove-file": 5, "rmdir": 2, "add": 22, "rm": 4, "commit": 18, "reset": 5, "branch": 3, "switch-c": 3, "switch": 3, "branch-r": 2}

func randomFaults(t *testing.T, pid string) {
	maxPoints := 48
	rapid.Check(t, func(rt *rapid.T) {
		e := NewExec(profNone)
		g := &G{T: rt, E: e}
		var setup []Step
		do := func(st Step) {
			setup = append(setup, st)
			if err := e.Do(st); err != nil {
				panic(err)
			}
		}
		for _, st := range prelude(g) {
			do(st)
		}
		do(Step{Op: "write", Path: g.NewPath(), Data: g.SmallContent()})
		n := g.Int(2, 25, "prefixLen")
		for i := 0; i < n; i++ {
			do(nextStep(g, faultPrefixWeights))
		}
		var cmdStep Step
		for try := 0; ; try++ {
			cmdStep = nextStep(g, faultCmdWeights)
			if cmdStep.Op == "goit" && cmdStep.Note == "" || try > 5 {
				break
			}
		}
		e.Close()
		if cmdStep.Op != "goit" {
			return
		}
		p, err := prepare(setup, cmdStep.Args)
		if err != nil {
			panic(err)
		}
		defer p.close()
		// commit ids depend on the wall clock of the prefix: arguments that are ids are re-resolved by position
		cmd := cmdStep.Args
		if cmd[0] == "update-ref" {
			return // its id argument belongs to the other instance of the prefix
		}
		if p.ffRes.Exit != 0 || p.ffRes.Panic {
			stats.Label("random:command-not-successful-fault-free")
			return
		}
		n = p.nMod
		if pid == "C16" {
			n = p.nFault
		}
		step := 1
		if n > maxPoints {
			step = (n + maxPoints - 1) / maxPoints
		}
		off := 0
		if step > 1 {
			off = g.Int(0, step-1, "pointOffset")
		}
		for k := 1 + off; k <= n; k += step {
			var v *faultViolation
			var class string
			if pid == "C15" {
				v, class = p.runCrashPoint(cmd, k)
			} else {
				v, class = p.runFaultPoint(cmd, k)
			}
			if class == "not-reached" {
				continue
			}
			stats.Eval()
			stats.Nontrivial(class)
			stats.Label("command:" + cmdKind(cmd))
			if err := countFault(v, pid); err != nil {
				fc := &faultCase{State: "random", Setup: setup, Command: cmd}
				if pid == "C15" {
					fc.CrashAt = k
				} else {
					fc.FailAt = k
				}
				findings.Save(pid, strings.ToLower(pid), fc, err)
				rt.Fatalf("%s violated: %v\nsetup:\n  %s", pid, err, strings.Join((&Scenario{Steps: setup}).Render(), "\n  "))
			}
		}
		if stats.WantSample() {
			stats.Sample(map[string]interface{}{"state": "random prefix of " + fmt.Sprint(len(setup)) + " steps", "command": cmd, "points": n})
		}
	})
}

func TestC15Random(t *testing.T) { randomFaults(t, "C15") }
func TestC16Random(t *testing.T) { randomFaults(t, "C16") }
