package cli

import (
	"encoding/json"
	"fmt"
	"os"
	"testing"

	"github.com/JunNishimura/Goit/verifharness/core/findings"
	"github.com/JunNishimura/Goit/verifharness/core/stats"
)

func TestMain(m *testing.M) {
	if d := os.Getenv("VERIF_SCRATCH"); d != "" {
		os.MkdirAll(d, 0o755)
	}
	rc := m.Run()
	stats.Flush()
	os.Exit(rc)
}

// replayers maps a replay kind to its executor.
var replayers = map[string]func(property string, raw json.RawMessage) error{}

// TestReplay re-runs a saved case (VERIF_REPLAY_IN) without any generation.
func TestReplay(t *testing.T) {
	p := os.Getenv("VERIF_REPLAY_IN")
	if p == "" {
		t.Skip("VERIF_REPLAY_IN not set")
	}
	r, err := findings.Load(p)
	if err != nil {
		fmt.Println("REPLAY-INFRA: cannot load replay:", err)
		t.Fatal(err)
	}
	f, ok := replayers[r.Kind]
	if !ok {
		fmt.Println("REPLAY-INFRA: unknown replay kind", r.Kind)
		t.Fatal("unknown kind")
	}
	if err := f(r.Property, r.Case); err != nil {
		t.Fatalf("replayed case violates %s: %v", r.Property, err)
	}
}

// profiles is the registry of scenario profiles by name.
var profiles = map[string]*Profile{}

func register(p *Profile) *Profile { profiles[p.Name] = p; return p }

func init() {
	replayers["scenario"] = func(property string, raw json.RawMessage) error {
		var sc Scenario
		if err := json.Unmarshal(raw, &sc); err != nil {
			return fmt.Errorf("REPLAY-INFRA: %w", err)
		}
		p, ok := profiles[sc.Profile]
		if !ok {
			fmt.Println("REPLAY-INFRA: unknown profile", sc.Profile)
			return fmt.Errorf("unknown profile %q", sc.Profile)
		}
		return ReplayScenario(p, &sc)
	}
}
