package cli

import (
	"fmt"
	"os"
	"strconv"
	"testing"

	"github.com/JunNishimura/Goit/verifharness/core/stats"
)

func TestC10(t *testing.T) {
	runProfile(t, profBranch, runOpts{weights: branchWeights, seedFiles: 1, pre: func(g *G) []Step {
		return []Step{{Op: "write", Path: "f", Data: []byte("0\n")}, goit("add", "f"), goit("commit", "-m", "first")}
	}})
}

// TestC10Exhaustive explores every sequence of the branch alphabet up to a depth
// bound from three start states. Shards split the first-level operations.
func TestC10Exhaustive(t *testing.T) {
	depth := 2
	if os.Getenv("VERIF_TIER") == "thorough" {
		depth = 3
	}
	shard, _ := strconv.Atoi(os.Getenv("VERIF_SHARD"))
	nsh, _ := strconv.Atoi(os.Getenv("VERIF_NSHARDS"))
	if nsh < 1 {
		nsh = 1
	}
	base := []Step{goit("init"), goit("config", "user.name", "U"), goit("config", "user.email", "u@example.com"),
		{Op: "write", Path: "f", Data: []byte("0\n")}, goit("add", "f"), goit("commit", "-m", "first"),
		{Op: "write", Path: "f", Data: []byte("1\n")}, goit("add", "f"), goit("commit", "-m", "second")}
	starts := map[string][]Step{
		"one-branch":   base,
		"two-branches": append(append([]Step{}, base...), goit("branch", "b")),
		"after-rename": append(append([]Step{}, base...), goit("branch", "-r", "a.b"), goit("branch", "main")),
	}
	total := 0
	for _, name := range []string{"one-branch", "two-branches", "after-rename"} {
		e := NewExec(profBranch)
		for _, st := range starts[name] {
			if err := e.Do(st); err != nil {
				e.Close()
				t.Fatalf("start state %s: %v", name, err)
			}
		}
		first := branchAlphabet(e)
		for i, st := range first {
			if i%nsh != shard {
				continue
			}
			n := cloneExec(e)
			count := 1
			var err error
			if st.Op == "commit*" {
				for _, s := range []Step{{Op: "write", Path: "f", Data: []byte("x\n")}, goit("add", "f"), goit("commit", "-m", "c")} {
					if err = n.Do(s); err != nil {
						break
					}
				}
			} else {
				err = n.Do(st)
			}
			if err == nil {
				err = exploreBranch(n, depth-1, func(sc *Scenario) {
					if stats.WantSample() && len(sc.Steps) >= len(starts[name])+depth {
						stats.Sample(map[string]interface{}{"start": name, "sequence": sc.Render()[len(starts[name]):]})
					}
				}, &count)
			} else if v, ok := err.(*Violation); ok {
				err = fmt.Errorf("%s", fail(profBranch, n.Sc, v))
			}
			n.Close()
			total += count
			stats.EvalN(count)
			if err != nil {
				e.Close()
				t.Fatalf("%v", err)
			}
		}
		e.Close()
	}
	stats.Exhaustive(fmt.Sprintf("branch-machine nodes (depth %d, 3 start states, alphabet of ~%d operations)", depth, 22), total)
}
