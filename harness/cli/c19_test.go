package cli

import (
	"bytes"
	"compress/zlib"
	"encoding/json"
	"fmt"
	"os"
	"path/filepath"
	"sort"
	"strings"
	"testing"

	"github.com/JunNishimura/Goit/verifharness/core/findings"
	"github.com/JunNishimura/Goit/verifharness/core/gitfmt"
	"github.com/JunNishimura/Goit/verifharness/core/sbx"
	"github.com/JunNishimura/Goit/verifharness/core/stats"
)

// C19 (CLI layer): the read-only commands on repositories in which one file produced by
// Goit was damaged: exit status 0 or 1, never a panic or a hang; a damaged object is
// never printed as if it were the requested content.

type c19cliCase struct {
	File     string `json:"file"` // path relative to .goit
	Kind     string `json:"kind"` // trunc | del | sub | content-sub | content-trunc | swap
	Pos      int    `json:"pos"`  // position of the mutation
	Byte     int    `json:"byte"` // replacement byte for sub
	SwapWith string `json:"swap_with,omitempty"`
}

func c19Repo() *sbx.Box {
	b := sbx.New()
	run := func(args ...string) {
		if r := b.Run(args...); !r.OK() {
			panic(fmt.Sprintf("harness: %s", r))
		}
	}
	run("init")
	run("config", "user.name", "Test User")
	run("config", "user.email", "test@example.com")
	b.WriteFile("a.txt", []byte("hello\n"))
	b.WriteFile("dir/x y.txt", []byte("two\n"))
	b.WriteFile("dir/sub/z", []byte("three\n"))
	b.WriteFile("dir/empty", nil) // the zero-length blob: an object file whose content has no byte to compare
	run("add", "a.txt", "dir")
	run("commit", "-m", "first")
	b.WriteFile("a.txt", []byte("changed\n"))
	run("add", "a.txt")
	run("commit", "-m", "second: line")
	run("switch", "-c", "topic")
	run("reset", "--soft", "HEAD@{1}")
	return b
}

func mutateBytes(orig []byte, c *c19cliCase) []byte {
	switch c.Kind {
	case "trunc", "content-trunc":
		return append([]byte{}, orig[:c.Pos]...)
	case "del":
		return append(append([]byte{}, orig[:c.Pos]...), orig[c.Pos+1:]...)
	case "ins":
		// two more bytes (a file that grew: an id followed by further hex digits, a repeated separator)
		return append(append(append([]byte{}, orig[:c.Pos]...), byte(c.Byte), byte(c.Byte)), orig[c.Pos:]...)
	default:
		m := append([]byte{}, orig...)
		m[c.Pos] = byte(c.Byte)
		return m
	}
}

func runC19CLI(base *sbx.Box, c *c19cliCase) error {
	b := base.Clone()
	defer b.Close()
	p := filepath.Join(b.GoitDir(), filepath.FromSlash(c.File))
	orig, err := os.ReadFile(p)
	if err != nil {
		return fmt.Errorf("REPLAY-INFRA: %v", err)
	}
	var objID string
	if strings.HasPrefix(c.File, "objects/") {
		objID = strings.ReplaceAll(strings.TrimPrefix(c.File, "objects/"), "/", "")
	}
	var data []byte
	limit := false
	switch {
	case c.Kind == "swap":
		other, err := os.ReadFile(filepath.Join(b.GoitDir(), filepath.FromSlash(c.SwapWith)))
		if err != nil {
			return fmt.Errorf("REPLAY-INFRA: %v", err)
		}
		data = other
	case c.Kind == "index-path":
		// a staging-area file that is well formed except that entry number Pos names SwapWith
		// (an absolute path, a path that leaves the working tree): arbitrary bytes of the file,
		// which the commands must not follow to a device that never ends
		d, err := indexWithPath(orig, c.Pos, c.SwapWith)
		if err != nil {
			return fmt.Errorf("REPLAY-INFRA: %v", err)
		}
		data = d
		limit = true
	case strings.HasPrefix(c.Kind, "content-"):
		o, err := gitfmt.DecodeObjectBytes(orig)
		if err != nil {
			return fmt.Errorf("REPLAY-INFRA: %v", err)
		}
		full := append([]byte(fmt.Sprintf("%s %d\x00", o.Kind, len(o.Data))), o.Data...)
		if c.Pos >= len(full) {
			return nil
		}
		m := mutateBytes(full, c)
		var buf bytes.Buffer
		w := zlib.NewWriter(&buf)
		w.Write(m)
		w.Close()
		data = buf.Bytes()
	default:
		if c.Pos >= len(orig) && c.Kind != "trunc" && c.Kind != "ins" {
			return nil
		}
		data = mutateBytes(orig, c)
	}
	if bytes.Equal(data, orig) {
		return nil
	}
	if err := os.WriteFile(p, data, 0o644); err != nil {
		return err
	}
	cmds := [][]string{{"ls-files", "-s"}, {"status"}, {"log"}, {"reflog"}, {"branch", "--list"}, {"rev-parse", "HEAD", "main"}}
	if objID != "" {
		cmds = append([][]string{{"cat-file", "-p", objID}, {"cat-file", "-t", objID}}, cmds...)
	}
	// the commands that change something read the same files first
	b.WriteFile("a.txt", []byte("edited after the damage\n"))
	cmds = append(cmds, [][]string{{"add", "a.txt"}, {"commit", "-m", "after damage"}, {"restore", "--staged", "dir"}, {"reset", "--soft", "HEAD@{0}"}, {"reset", "--hard", "HEAD@{1}"},
		{"branch", "nb"}, {"switch", "main"}, {"restore", "a.txt"}, {"status"}}...)
	for _, cmd := range cmds {
		var r sbx.Result
		if limit {
			r = b.RunLimited(4<<20, cmd...) // 4 GiB of address space: "allocates without bound" ends as a reported crash, not as a dead machine
		} else {
			r = b.Run(cmd...)
		}
		if r.Timeout {
			return fmt.Errorf("%v hangs on a repository whose %s was damaged (%s at %d)", cmd, c.File, c.Kind, c.Pos)
		}
		if r.Panic || (r.Exit != 0 && r.Exit != 1) {
			return fmt.Errorf("%v crashes on a repository whose %s was damaged (%s at %d): %s", cmd, c.File, c.Kind, c.Pos, r)
		}
		if objID != "" && cmd[0] == "cat-file" && cmd[1] == "-p" && r.Exit == 0 {
			// whatever is printed for the id must be the content with that id (blobs and commits are printed verbatim)
			if o, err := gitfmt.DecodeObjectBytes(orig); err == nil && o.Kind != "tree" {
				if r.Stdout != string(o.Data)+"\n" {
					return fmt.Errorf("cat-file -p %s succeeds on a damaged object file (%s at %d) and prints other content than the object with that id: %q", objID, c.Kind, c.Pos, clipS(r.Stdout))
				}
			}
		}
	}
	if strings.HasPrefix(c.File, "logs/") {
		// a damaged journal must not make a command install an id that is not a stored commit
		o := Observe(b)
		for name, id := range o.Branches {
			if _, err := gitfmt.ReadCommit(o.Store, id); err != nil {
				return fmt.Errorf("after the commands on a repository whose %s was damaged (%s at %d), branch %q holds %q, which is not a stored commit: %v", c.File, c.Kind, c.Pos, name, id, err)
			}
		}
	}
	return nil
}

// indexWithPath rewrites the path of entry number k of a Goit index (12 bytes of header,
// then per entry 20 bytes of id, a 16-bit length and the path).
func indexWithPath(orig []byte, k int, path string) ([]byte, error) {
	if len(orig) < 12 {
		return nil, fmt.Errorf("index too short")
	}
	out := append([]byte{}, orig[:12]...)
	pos := 12
	for i := 0; pos < len(orig); i++ {
		if pos+22 > len(orig) {
			return nil, fmt.Errorf("index entry %d cut short", i)
		}
		n := int(orig[pos+20])<<8 | int(orig[pos+21])
		if pos+22+n > len(orig) {
			return nil, fmt.Errorf("index entry %d cut short", i)
		}
		name := orig[pos+22 : pos+22+n]
		if i == k {
			name = []byte(path)
		}
		out = append(out, orig[pos:pos+20]...)
		out = append(out, byte(len(name)>>8), byte(len(name)))
		out = append(out, name...)
		pos += 22 + n
	}
	return out, nil
}

var c19Base *sbx.Box

func init() {
	replayers["c19cli"] = func(_ string, raw json.RawMessage) error {
		var c c19cliCase
		if err := json.Unmarshal(raw, &c); err != nil {
			return err
		}
		b := c19Repo()
		defer b.Close()
		// object names depend on the wall clock for commits: a pinned case names files by class
		c.File = resolveC19File(b, c.File)
		return runC19CLI(b, &c)
	}
}

// resolveC19File maps "object:blob#0", "object:commit#1", ... to the actual file of this repository instance.
func resolveC19File(b *sbx.Box, f string) string {
	if !strings.HasPrefix(f, "object:") {
		return f
	}
	spec := strings.TrimPrefix(f, "object:")
	kind, nth := spec, 0
	if i := strings.Index(spec, "#"); i >= 0 {
		kind = spec[:i]
		fmt.Sscanf(spec[i+1:], "%d", &nth)
	}
	var files []string
	for _, of := range c19ObjectFiles(b) {
		raw, _ := os.ReadFile(filepath.Join(b.GoitDir(), of))
		if o, err := gitfmt.DecodeObjectBytes(raw); err == nil && o.Kind == kind {
			files = append(files, fmt.Sprintf("%08d|%s", len(o.Data), of))
		}
	}
	sort.Strings(files)
	if nth >= len(files) {
		nth = len(files) - 1
	}
	return files[nth][strings.Index(files[nth], "|")+1:]
}

func c19ObjectFiles(b *sbx.Box) []string {
	var out []string
	t := b.SnapGoit()
	for p := range t.Files {
		if strings.HasPrefix(p, "objects/") {
			out = append(out, p)
		}
	}
	sort.Strings(out)
	return out
}

// classOf names an object file by kind and size rank (stable across runs, unlike commit ids).
func classOf(b *sbx.Box, f string) string {
	if !strings.HasPrefix(f, "objects/") {
		return f
	}
	raw, _ := os.ReadFile(filepath.Join(b.GoitDir(), f))
	o, err := gitfmt.DecodeObjectBytes(raw)
	if err != nil {
		return f
	}
	var sizes []string
	for _, of := range c19ObjectFiles(b) {
		r2, _ := os.ReadFile(filepath.Join(b.GoitDir(), of))
		if o2, err := gitfmt.DecodeObjectBytes(r2); err == nil && o2.Kind == o.Kind {
			sizes = append(sizes, fmt.Sprintf("%08d|%s", len(o2.Data), of))
		}
	}
	sort.Strings(sizes)
	for i, s := range sizes {
		if strings.HasSuffix(s, "|"+f) {
			return fmt.Sprintf("object:%s#%d", o.Kind, i)
		}
	}
	return f
}

func TestC19CLI(t *testing.T) {
	base := c19Repo()
	defer base.Close()
	shard, nsh := shardInfo()
	stride := 5
	if os.Getenv("VERIF_TIER") == "thorough" {
		stride = 1
	}
	files := append([]string{"index", "HEAD", "refs/heads/main", "refs/heads/topic", "config", "logs/HEAD"}, c19ObjectFiles(base)...)
	n := 0
	try := func(c *c19cliCase) {
		n++
		if n%nsh != shard {
			return
		}
		stats.Eval()
		stats.Label("file:" + strings.SplitN(classOf(base, c.File), "#", 2)[0])
		stats.Nontrivial(fmt.Sprintf("%s|%s|%d|%d", classOf(base, c.File), c.Kind, c.Pos, c.Byte))
		if err := runC19CLI(base, c); err != nil {
			pin := *c
			pin.File = classOf(base, c.File)
			if pin.SwapWith != "" {
				pin.SwapWith = c.SwapWith
			}
			findings.Save("C19", "c19cli", &pin, err)
			t.Fatalf("C19 violated: %v", err)
		}
		if stats.WantSample() && n%211 == 0 {
			stats.Sample(map[string]interface{}{"file": classOf(base, c.File), "mutation": c.Kind, "position": c.Pos, "byte": c.Byte})
		}
	}
	// staging-area files whose entry k names a path outside the working tree
	up := strings.Repeat("../", 24) // deeper than any scratch directory
	for k := 0; k < 3; k++ {
		for _, hostile := range []string{"/dev/zero", up + "dev/zero", "dir/../" + up + "dev/zero", "/dev/null", up + "dev/null", "/", "..", "../x"} {
			stats.Label("index:entry names a path outside the working tree")
			try(&c19cliCase{File: "index", Kind: "index-path", Pos: k, SwapWith: hostile})
		}
	}
	for _, f := range files {
		orig, _ := os.ReadFile(filepath.Join(base.GoitDir(), filepath.FromSlash(f)))
		for i := 0; i <= len(orig); i++ {
			if stride > 1 && i >= 32 && i%stride != 0 && i != len(orig) {
				continue // quick tier: the first 32 positions completely, then every 5th
			}
			try(&c19cliCase{File: f, Kind: "trunc", Pos: i})
			if i == len(orig) {
				if !strings.HasPrefix(f, "objects/") {
					for _, v := range []int{'a', '0', ' ', '\n'} {
						try(&c19cliCase{File: f, Kind: "ins", Pos: i, Byte: v})
					}
				}
				break
			}
			try(&c19cliCase{File: f, Kind: "del", Pos: i})
			if !strings.HasPrefix(f, "objects/") {
				for _, v := range []int{'a', '0', ' ', '\n'} {
					try(&c19cliCase{File: f, Kind: "ins", Pos: i, Byte: v})
				}
			}
			for _, v := range []int{int(orig[i] ^ 0x01), int(orig[i] ^ 0x80), 0x00, 0x20, 0x0a, 0xff} {
				try(&c19cliCase{File: f, Kind: "sub", Pos: i, Byte: v})
			}
		}
		if strings.HasPrefix(f, "objects/") {
			o, err := gitfmt.DecodeObjectBytes(orig)
			if err != nil {
				t.Fatalf("harness: %v", err)
			}
			full := len(o.Data) + len(o.Kind) + 3
			for i := 0; i < full; i += stride {
				try(&c19cliCase{File: f, Kind: "content-trunc", Pos: i})
				for _, v := range []int{0x00, 0x20, 0x0a, 0xff, 0x30} {
					try(&c19cliCase{File: f, Kind: "content-sub", Pos: i, Byte: v})
				}
			}
			for _, g := range c19ObjectFiles(base) {
				if g != f {
					try(&c19cliCase{File: f, Kind: "swap", SwapWith: g})
				}
			}
		}
	}
}
