package cli

import (
	"bytes"
	"encoding/hex"
	"encoding/json"
	"fmt"
	"os"
	"path/filepath"
	"strings"
	"testing"

	"github.com/JunNishimura/Goit/verifharness/core/findings"
	"github.com/JunNishimura/Goit/verifharness/core/gitfmt"
	"github.com/JunNishimura/Goit/verifharness/core/sbx"
	"github.com/JunNishimura/Goit/verifharness/core/stats"
)

// C19 (CLI layer, second part): objects whose CONTENT is damaged but which are stored
// consistently — under the id of the damaged content, and referenced by everything that
// referenced the original (parent trees, commits, branch files are rewritten bottom-up).
// The checksum of the object store cannot refuse such an object, so the commands get to
// work with a commit without a tree line, a tree entry with an empty name, a directory
// entry that names a blob, ...: they have to report an error, not crash or hang.

type c19rehashCase struct {
	Object string `json:"object"` // "object:commit#1", "object:tree#0" (kind and size rank, see classOf)
	Kind   string `json:"kind"`   // delline | truncline | trunc | sub | dupline
	Pos    int    `json:"pos"`
	Byte   int    `json:"byte"`
}

// mutatePayload applies the mutation to the content of an object (the part after the header).
func mutatePayload(kind string, data []byte, c *c19rehashCase) []byte {
	switch c.Kind {
	case "trunc":
		if c.Pos > len(data) {
			return nil
		}
		return append([]byte{}, data[:c.Pos]...)
	case "sub":
		if c.Pos >= len(data) {
			return nil
		}
		m := append([]byte{}, data...)
		m[c.Pos] = byte(c.Byte)
		return m
	case "delline", "truncline", "dupline":
		lines := bytes.SplitAfter(data, []byte("\n"))
		if c.Pos >= len(lines) {
			return nil
		}
		var out [][]byte
		switch c.Kind {
		case "delline":
			out = append(append(out, lines[:c.Pos]...), lines[c.Pos+1:]...)
		case "truncline":
			out = lines[:c.Pos]
		default:
			out = append(append(append(out, lines[:c.Pos+1]...), lines[c.Pos]), lines[c.Pos+1:]...)
		}
		return bytes.Join(out, nil)
	}
	return nil
}

// storeObject writes (kind, data) into the object store of the box under its own id.
func storeObject(b *sbx.Box, kind string, data []byte) (string, error) {
	id, raw := gitfmt.EncodeObject(kind, data)
	p := filepath.Join(b.GoitDir(), "objects", id[:2], id[2:])
	if err := os.MkdirAll(filepath.Dir(p), 0o755); err != nil {
		return "", err
	}
	return id, os.WriteFile(p, raw, 0o644)
}

// rewire makes everything that referred to object oldID refer to newID: trees (raw ids) and
// commits (hex ids) are rewritten and stored under their new ids, recursively; branch files last.
func rewire(b *sbx.Box, oldID, newID string, depth int) error {
	if depth > 20 || oldID == newID {
		return nil
	}
	oldRaw, _ := hex.DecodeString(oldID)
	newRaw, _ := hex.DecodeString(newID)
	for _, of := range c19ObjectFiles(b) {
		raw, err := os.ReadFile(filepath.Join(b.GoitDir(), of))
		if err != nil {
			continue
		}
		o, err := gitfmt.DecodeObjectBytes(raw)
		if err != nil {
			continue
		}
		id := strings.ReplaceAll(strings.TrimPrefix(of, "objects/"), "/", "")
		if id == newID {
			continue
		}
		var nd []byte
		switch {
		case o.Kind == "tree" && bytes.Contains(o.Data, oldRaw):
			nd = bytes.ReplaceAll(o.Data, oldRaw, newRaw)
		case o.Kind == "commit" && bytes.Contains(o.Data, []byte(oldID)):
			nd = bytes.ReplaceAll(o.Data, []byte(oldID), []byte(newID))
		default:
			continue
		}
		nid, err := storeObject(b, o.Kind, nd)
		if err != nil {
			return err
		}
		if err := rewire(b, id, nid, depth+1); err != nil {
			return err
		}
	}
	heads := filepath.Join(b.GoitDir(), "refs", "heads")
	es, _ := os.ReadDir(heads)
	for _, e := range es {
		p := filepath.Join(heads, e.Name())
		if cur, err := os.ReadFile(p); err == nil && strings.TrimSpace(string(cur)) == oldID {
			if err := os.WriteFile(p, []byte(newID), 0o644); err != nil {
				return err
			}
		}
	}
	return nil
}

func runC19Rehash(base *sbx.Box, c *c19rehashCase) error {
	b := base.Clone()
	defer b.Close()
	of := resolveC19File(b, c.Object)
	raw, err := os.ReadFile(filepath.Join(b.GoitDir(), of))
	if err != nil {
		return fmt.Errorf("REPLAY-INFRA: %v", err)
	}
	o, err := gitfmt.DecodeObjectBytes(raw)
	if err != nil {
		return fmt.Errorf("REPLAY-INFRA: %v", err)
	}
	m := mutatePayload(o.Kind, o.Data, c)
	if m == nil || bytes.Equal(m, o.Data) {
		return nil
	}
	oldID := strings.ReplaceAll(strings.TrimPrefix(of, "objects/"), "/", "")
	newID, err := storeObject(b, o.Kind, m)
	if err != nil {
		return err
	}
	if err := rewire(b, oldID, newID, 0); err != nil {
		return err
	}
	what := fmt.Sprintf("a repository in which the content of %s %s was damaged (%s at %d) and stored consistently as %s", o.Kind, oldID[:8], c.Kind, c.Pos, newID[:8])
	b.WriteFile("a.txt", []byte("edited\n"))
	cmds := [][]string{{"cat-file", "-p", newID}, {"cat-file", "-t", newID}, {"ls-files", "-s"}, {"status"}, {"log"}, {"log", "-n", "9"}, {"reflog"}, {"branch", "--list"},
		{"rev-parse", "HEAD", "main", "topic"}, {"write-tree"},
		// commands that read the damaged snapshot in order to change something
		{"add", "a.txt"}, {"commit", "-m", "on damaged history"}, {"restore", "--staged", "dir"}, {"restore", "dir"}, {"reset", "--mixed", "HEAD@{0}"}, {"switch", "main"},
		{"reset", "--hard", "HEAD@{1}"}, {"switch", "-c", "other"}, {"rm", "dir"}, {"status"}}
	for _, cmd := range cmds {
		r := b.Run(cmd...)
		if r.Timeout {
			return fmt.Errorf("%v hangs on %s", cmd, what)
		}
		if r.Panic || (r.Exit != 0 && r.Exit != 1) {
			return fmt.Errorf("%v crashes on %s: %s", cmd, what, r)
		}
	}
	return nil
}

func init() {
	replayers["c19rehash"] = func(_ string, raw json.RawMessage) error {
		var c c19rehashCase
		if err := json.Unmarshal(raw, &c); err != nil {
			return err
		}
		b := c19Repo()
		defer b.Close()
		return runC19Rehash(b, &c)
	}
}

func TestC19Rehash(t *testing.T) {
	base := c19Repo()
	defer base.Close()
	shard, nsh := shardInfo()
	stride := 4
	if os.Getenv("VERIF_TIER") == "thorough" {
		stride = 1
	}
	n := 0
	try := func(c *c19rehashCase) {
		n++
		if n%nsh != shard {
			return
		}
		stats.Eval()
		stats.Label("rehash:" + strings.SplitN(strings.TrimPrefix(c.Object, "object:"), "#", 2)[0] + ":" + c.Kind)
		stats.Nontrivial(fmt.Sprintf("rehash|%s|%s|%d|%d", c.Object, c.Kind, c.Pos, c.Byte))
		if err := runC19Rehash(base, c); err != nil {
			findings.Save("C19", "c19rehash", c, err)
			t.Fatalf("C19 violated: %v", err)
		}
		if stats.WantSample() && n%97 == 0 {
			stats.Sample(map[string]interface{}{"object": c.Object, "mutation": c.Kind, "position": c.Pos, "byte": c.Byte, "layer": "cli, content damaged and stored consistently"})
		}
	}
	for _, of := range c19ObjectFiles(base) {
		raw, _ := os.ReadFile(filepath.Join(base.GoitDir(), of))
		o, err := gitfmt.DecodeObjectBytes(raw)
		if err != nil {
			t.Fatalf("harness: %v", err)
		}
		if o.Kind == "blob" {
			continue // any bytes are a valid blob
		}
		name := classOf(base, of)
		if o.Kind == "commit" {
			lines := bytes.Count(o.Data, []byte("\n")) + 1
			for i := 0; i < lines; i++ {
				try(&c19rehashCase{Object: name, Kind: "delline", Pos: i})
				try(&c19rehashCase{Object: name, Kind: "truncline", Pos: i})
				try(&c19rehashCase{Object: name, Kind: "dupline", Pos: i})
			}
		}
		for i := 0; i <= len(o.Data); i++ {
			if stride > 1 && i >= 24 && i%stride != 0 {
				continue
			}
			try(&c19rehashCase{Object: name, Kind: "trunc", Pos: i})
			if i < len(o.Data) {
				for _, v := range []int{0x00, 0x20, 0x0a, 0x2f, 0xff, int(o.Data[i] ^ 0x01)} {
					try(&c19rehashCase{Object: name, Kind: "sub", Pos: i, Byte: v})
				}
			}
		}
	}
}
