// Package cli holds the property checks that drive the goit binary built from
// /repo's current working tree. A scenario is a list of concrete, serialisable
// steps; generation (rapid) draws the next step from the observed state,
// execution runs it, evaluates the property's oracles on (pre, step, post) and
// goes on. Because steps are what gets executed, a failing scenario replays
// without the library.
package cli

import (
	"regexp"
	"encoding/base64"
	"encoding/json"
	"fmt"
	"os"
	"path/filepath"
	"sort"
	"strings"
	"time"
	"unicode/utf8"

	"github.com/JunNishimura/Goit/verifharness/core/findings"
	"github.com/JunNishimura/Goit/verifharness/core/gitfmt"
	"github.com/JunNishimura/Goit/verifharness/core/sbx"
	"github.com/JunNishimura/Goit/verifharness/core/stats"
)

// ---------------------------------------------------------------- steps

type Step struct {
	Op      string              `json:"op"` // write | remove | rmdir | touch | goit | index | tz
	Path    string              `json:"path,omitempty"`
	Data    []byte              `json:"data,omitempty"`
	Args    []string            `json:"args,omitempty"`
	TZ      int                 `json:"tz,omitempty"`      // op tz: UTC offset in minutes for the following goit runs
	Entries []gitfmt.IndexEntry `json:"entries,omitempty"` // op index: write a crafted staging-area file
	Note    string              `json:"note,omitempty"`    // generator intent, e.g. "invalid" = invalid by construction
}

// Steps may carry file names that are not valid UTF-8; encoding/json would replace such bytes.
// They are stored as "\x00b64:<base64>" (a NUL cannot occur in a path or argument).
func encStr(s string) string {
	if utf8.ValidString(s) {
		return s
	}
	return "\x00b64:" + base64.StdEncoding.EncodeToString([]byte(s))
}

func decStr(s string) string {
	if strings.HasPrefix(s, "\x00b64:") {
		if b, err := base64.StdEncoding.DecodeString(strings.TrimPrefix(s, "\x00b64:")); err == nil {
			return string(b)
		}
	}
	return s
}

type stepJSON Step

func (s Step) MarshalJSON() ([]byte, error) {
	t := stepJSON(s)
	t.Path = encStr(s.Path)
	if s.Args != nil {
		t.Args = make([]string, len(s.Args))
		for i, a := range s.Args {
			t.Args[i] = encStr(a)
		}
	}
	return json.Marshal(t)
}

func (s *Step) UnmarshalJSON(b []byte) error {
	var t stepJSON
	if err := json.Unmarshal(b, &t); err != nil {
		return err
	}
	t.Path = decStr(t.Path)
	for i, a := range t.Args {
		t.Args[i] = decStr(a)
	}
	*s = Step(t)
	return nil
}

func (s Step) String() string {
	switch s.Op {
	case "goit":
		n := ""
		if s.Note != "" {
			n = "  #" + s.Note
		}
		return fmt.Sprintf("goit %q%s", s.Args, n)
	case "write":
		return fmt.Sprintf("write %q (%d bytes: %s)", s.Path, len(s.Data), preview(s.Data))
	case "index":
		return fmt.Sprintf("craft index with %d entries", len(s.Entries))
	case "file2dir":
		return fmt.Sprintf("replace file %q by a directory holding %q", s.Path, s.Args[0])
	case "copydir":
		return fmt.Sprintf("copy directory %q to %q", s.Path, s.Args[0])
	case "dir2file":
		return fmt.Sprintf("replace directory %q by a regular file", s.Path)
	case "forget-global-config":
		return "remove ~/.goitconfig"
	case "tz":
		return fmt.Sprintf("tz %+d min", s.TZ)
	default:
		return fmt.Sprintf("%s %q", s.Op, s.Path)
	}
}

func preview(b []byte) string {
	if len(b) > 24 {
		return fmt.Sprintf("%q…", b[:24])
	}
	return fmt.Sprintf("%q", b)
}

type Scenario struct {
	Profile string `json:"profile"`
	Steps   []Step `json:"steps"`
}

func (sc *Scenario) Render() []string {
	out := make([]string, 0, len(sc.Steps))
	for _, s := range sc.Steps {
		out = append(out, s.String())
	}
	return out
}

// ---------------------------------------------------------------- observation

// Obs is an independent observation of the whole state, decoded by gitfmt.
type Obs struct {
	Work     *sbx.Tree
	Goit     *sbx.Tree
	Home     *sbx.Tree
	HasGoit  bool
	Index    *gitfmt.Index // nil if undecodable
	IndexErr error
	IdxMap   map[string]string
	Head     string            // raw HEAD text
	HeadBr   string            // branch HEAD names ("" if malformed)
	Branches map[string]string // name -> raw content of refs/heads/<name>
	Objects  map[string]bool   // ids of object files
	Store    gitfmt.MapStore
}

func Observe(b *sbx.Box) *Obs {
	o := &Obs{Work: b.SnapWork(), Goit: b.SnapGoit(), Home: b.SnapHome(), Branches: map[string]string{}, Objects: map[string]bool{}}
	o.HasGoit = b.IsDir(".goit")
	o.Store = gitfmt.MapStore(o.Goit.Files)
	if ib, ok := o.Goit.Files["index"]; ok {
		o.Index, o.IndexErr = gitfmt.DecodeIndex([]byte(ib))
	} else {
		o.Index = &gitfmt.Index{Version: 1}
	}
	if o.Index != nil {
		o.IdxMap = o.Index.Map()
	} else {
		o.IdxMap = map[string]string{}
	}
	o.Head = o.Goit.Files["HEAD"]
	const pfx = "ref: refs/heads/"
	if strings.HasPrefix(o.Head, pfx) {
		o.HeadBr = strings.TrimSuffix(o.Head[len(pfx):], "\n")
	}
	for p, v := range o.Goit.Files {
		if strings.HasPrefix(p, "refs/heads/") {
			o.Branches[strings.TrimPrefix(p, "refs/heads/")] = v
		}
		if strings.HasPrefix(p, "objects/") {
			o.Objects[strings.ReplaceAll(strings.TrimPrefix(p, "objects/"), "/", "")] = true
		}
	}
	return o
}

// HeadCommit returns the id the current branch holds ("" when unborn).
func (o *Obs) HeadCommit() string { return o.Branches[o.HeadBr] }

func (o *Obs) Tracked() []string {
	ps := make([]string, 0, len(o.IdxMap))
	for p := range o.IdxMap {
		ps = append(ps, p)
	}
	sort.Strings(ps)
	return ps
}

func (o *Obs) BranchNames() []string {
	ns := make([]string, 0, len(o.Branches))
	for n := range o.Branches {
		ns = append(ns, n)
	}
	sort.Strings(ns)
	return ns
}

// Snapshot returns the flattened (path -> blob id) content of a commit.
func (o *Obs) Snapshot(commitID string) (map[string]string, error) {
	c, err := gitfmt.ReadCommit(o.Store, commitID)
	if err != nil {
		return nil, err
	}
	ps, err := gitfmt.FlattenTreeLoose(o.Store, c.Tree)
	if err != nil {
		return nil, err
	}
	m := map[string]string{}
	for _, p := range ps {
		if _, dup := m[p.Path]; dup {
			return nil, fmt.Errorf("commit %s lists path %q twice", commitID, p.Path)
		}
		m[p.Path] = p.ID
	}
	return m, nil
}

// HeadSnapshot is the snapshot of HEAD's commit (empty map when unborn).
func (o *Obs) HeadSnapshot() (map[string]string, error) {
	id := o.HeadCommit()
	if id == "" {
		return map[string]string{}, nil
	}
	return o.Snapshot(id)
}

// LogLines returns the raw lines of logs/HEAD.
func (o *Obs) LogLines() []string {
	s, ok := o.Goit.Files["logs/HEAD"]
	if !ok || s == "" {
		return nil
	}
	return strings.Split(strings.TrimSuffix(s, "\n"), "\n")
}

// ---------------------------------------------------------------- history

// History is the little the oracles must remember across steps; everything
// else is re-read from the independent observation after each step.
type History struct {
	PathsEver  map[string]bool            // every working-tree path a step ever wrote
	EverStaged map[string]bool            // every path that was ever in the staging area
	StagedIDs  map[string]map[string]bool // path -> blob ids the harness computed from file bytes at add time
	Commits    map[string]*CommitRec      // learned commits
	Order      []string                   // commit ids in creation order
	Contents   map[string][]string        // path -> distinct contents it has held (for "revert to older bytes")
	LastStaged map[string]string          // path -> blob id of the bytes it had at the last successful add (re-synced when other commands change the entry)
	Ignore     []string                   // lines of .goitignore
	TZMin      int
	Data       map[string]interface{} // per-profile scratch
	StepNo     int
}

type CommitRec struct {
	ID       string
	Snapshot map[string]string
	Parent   string
	Message  string
	Tree     string
}

func NewHistory() *History {
	return &History{Contents: map[string][]string{}, LastStaged: map[string]string{}, PathsEver: map[string]bool{}, EverStaged: map[string]bool{}, StagedIDs: map[string]map[string]bool{}, Commits: map[string]*CommitRec{}, Data: map[string]interface{}{}}
}

// ---------------------------------------------------------------- execution

type Ctx struct {
	Box  *sbx.Box
	Pre  *Obs
	Post *Obs
	Step Step
	Res  sbx.Result
	H    *History
	Tmp  map[string]interface{} // data gathered by Before hooks for this step

	ranGoit bool
}

// IsGoit reports whether the step is `goit <sub> …`.
func (c *Ctx) IsGoit(sub string) bool {
	return c.Step.Op == "goit" && len(c.Step.Args) > 0 && c.Step.Args[0] == sub
}

type Oracle struct {
	Name   string
	Before func(c *Ctx) error // runs before the step (may run read-only goit commands)
	After  func(c *Ctx) error // runs after the step, with Pre and Post filled in
}

type Profile struct {
	ID      string // property id
	Name    string
	Oracles []Oracle
	// Classify is called after every step to record labels / non-trivial cases.
	Classify func(c *Ctx)
	// End runs once after the last step.
	End func(b *sbx.Box, h *History, last *Obs) error
}

type Exec struct {
	P   *Profile
	Box *sbx.Box
	H   *History
	Cur *Obs
	Sc  *Scenario

	hostileMsgs  bool
	fullContent  bool
	decorateArgs bool
}

func NewExec(p *Profile) *Exec {
	b := sbx.New()
	e := &Exec{P: p, Box: b, H: NewHistory(), Sc: &Scenario{Profile: p.Name}}
	e.Cur = Observe(b)
	return e
}

func (e *Exec) Close() { e.Box.Close() }

// Violation is an oracle failure (as opposed to a harness problem).
type Violation struct {
	Oracle string
	Step   int
	Err    error
}

func (v *Violation) Error() string {
	return fmt.Sprintf("oracle %s at step %d: %v", v.Oracle, v.Step, v.Err)
}

// Do executes one step and evaluates the profile's oracles.
func (e *Exec) Do(st Step) error {
	e.Sc.Steps = append(e.Sc.Steps, st)
	e.H.StepNo++
	// commit ids depend on the wall clock: steps name commits symbolically ("@commit#2" = the third commit
	// this scenario created, with optional "!trunc" / "!plus" / "!upper" damage) and are resolved here,
	// so that a saved scenario replays with the ids of the replaying run
	st = e.resolve(st)
	c := &Ctx{Box: e.Box, Pre: e.Cur, Step: st, H: e.H, Tmp: map[string]interface{}{}}
	for _, o := range e.P.Oracles {
		if o.Before != nil {
			if err := o.Before(c); err != nil {
				return &Violation{o.Name, len(e.Sc.Steps), err}
			}
		}
	}
	if err := e.apply(c); err != nil {
		return fmt.Errorf("harness: cannot apply step %s: %w", st, err)
	}
	c.Post = Observe(e.Box)
	e.Cur = c.Post
	// bookkeeping that every profile shares
	for p := range c.Post.IdxMap {
		e.H.EverStaged[p] = true
	}
	if st.Op == "file2dir" {
		e.H.PathsEver[st.Path+"/"+st.Args[0]] = true
	}
	if st.Op == "dir2file" {
		e.H.PathsEver[st.Path] = true
	}
	if st.Op == "copydir" {
		for p := range c.Post.Work.Files {
			if strings.HasPrefix(p, st.Args[0]+"/") {
				e.H.PathsEver[p] = true
			}
		}
	}
	if st.Op == "write" {
		seen := false
		for _, c := range e.H.Contents[st.Path] {
			seen = seen || c == string(st.Data)
		}
		if !seen && len(e.H.Contents[st.Path]) < 6 {
			e.H.Contents[st.Path] = append(e.H.Contents[st.Path], string(st.Data))
		}
		e.H.PathsEver[st.Path] = true
		if st.Path == ".goitignore" {
			e.H.Ignore = strings.Split(strings.TrimSuffix(string(st.Data), "\n"), "\n")
		}
	}
	learnCommits(c)
	for _, o := range e.P.Oracles {
		if o.After != nil {
			if err := o.After(c); err != nil {
				return &Violation{o.Name, len(e.Sc.Steps), fmt.Errorf("%w\n  after step: %s\n  %s", err, st, resultBrief(c))}
			}
		}
	}
	if e.P.Classify != nil {
		e.P.Classify(c)
	}
	if c.ranGoit {
		// oracles ran read-only commands: the next step starts from what is on disk now
		e.Cur = Observe(e.Box)
	}
	return nil
}

var symbolicID = regexp.MustCompile(`\{\{(tree|commit|treepath|commitpath)#(\d+)\}\}`)

func (e *Exec) resolve(st Step) Step {
	if st.Op != "goit" {
		return st
	}
	out := st
	out.Args = append([]string{}, st.Args...)
	for i, a := range out.Args {
		// the absolute spelling of a working-tree path: the sandbox directory differs between the run that found
		// a case and the run that replays it
		if strings.HasPrefix(a, "{{work}}") {
			out.Args[i] = e.Box.Work + strings.TrimPrefix(a, "{{work}}")
			continue
		}
		// {{tree#n}} / {{commit#n}} anywhere inside an argument (a message that quotes an id)
		if strings.Contains(a, "{{") {
			out.Args[i] = symbolicID.ReplaceAllStringFunc(a, func(m string) string {
				sub := symbolicID.FindStringSubmatch(m)
				var n int
				fmt.Sscanf(sub[2], "%d", &n)
				if len(e.H.Order) == 0 {
					return strings.Repeat("b", 40)
				}
				id := e.H.Order[n%len(e.H.Order)]
				switch sub[1] {
				case "tree":
					return e.H.Commits[id].Tree
				case "treepath": // the object file, relative to .goit/objects
					return e.H.Commits[id].Tree[:2] + "/" + e.H.Commits[id].Tree[2:]
				case "commitpath":
					return id[:2] + "/" + id[2:]
				}
				return id
			})
			continue
		}
		if !strings.HasPrefix(a, "@commit#") {
			continue
		}
		spec := strings.TrimPrefix(a, "@commit#")
		mod := ""
		if j := strings.Index(spec, "!"); j >= 0 {
			spec, mod = spec[:j], spec[j+1:]
		}
		var n int
		fmt.Sscanf(spec, "%d", &n)
		id := strings.Repeat("a", 40)
		if len(e.H.Order) > 0 {
			id = e.H.Order[n%len(e.H.Order)]
		}
		switch mod {
		case "trunc":
			id = id[:39]
		case "plus":
			id += "0"
		case "upper":
			id = strings.ToUpper(id)
		}
		out.Args[i] = id
	}
	return out
}

// Goit runs a (read-only) goit command on behalf of an oracle.
func (c *Ctx) Goit(args ...string) sbx.Result {
	c.ranGoit = true
	return c.Box.Run(args...)
}

func resultBrief(c *Ctx) string {
	if c.Step.Op != "goit" {
		return ""
	}
	return strings.ReplaceAll(c.Res.String(), "\n", "\n  ")
}

func (e *Exec) apply(c *Ctx) error {
	st := c.Step
	b := e.Box
	switch st.Op {
	case "write":
		return b.WriteFile(st.Path, st.Data)
	case "remove":
		return b.Remove(st.Path)
	case "dir2file":
		if err := b.RemoveAll(st.Path); err != nil {
			return err
		}
		return b.WriteFile(st.Path, st.Data)
	case "copydir":
		// a directory is copied to a new name: both then hold identical content (equal tree ids once committed)
		for p, content := range e.Cur.Work.Files {
			if strings.HasPrefix(p, st.Path+"/") {
				if err := b.WriteFile(st.Args[0]+strings.TrimPrefix(p, st.Path), []byte(content)); err != nil {
					return err
				}
			}
		}
		return nil
	case "file2dir":
		// a (tracked) file is replaced by a directory holding one new file
		if err := b.Remove(st.Path); err != nil {
			return err
		}
		return b.WriteFile(st.Path+"/"+st.Args[0], st.Data)
	case "rmdir":
		return b.RemoveAll(st.Path)
	case "forget-global-config":
		// the user's global configuration is gone (another HOME, a removed ~/.goitconfig)
		err := os.Remove(filepath.Join(b.Home, ".goitconfig"))
		if os.IsNotExist(err) {
			return nil
		}
		return err
	case "touch":
		return b.Touch(st.Path, time.Unix(1_000_000_000+int64(e.H.StepNo)*977, 0))
	case "tz":
		b.TZMin = st.TZ
		e.H.TZMin = st.TZ
		return nil
	case "index":
		return os.WriteFile(filepath.Join(b.GoitDir(), "index"), gitfmt.EncodeIndex(st.Entries), 0o644)
	case "goit":
		c.Res = b.Run(st.Args...)
		return nil
	}
	return fmt.Errorf("unknown op %q", st.Op)
}

// learnCommits records every commit object that appeared in this step.
func learnCommits(c *Ctx) {
	for id := range c.Post.Objects {
		if c.Pre.Objects[id] || c.H.Commits[id] != nil {
			continue
		}
		o, err := gitfmt.ReadObject(c.Post.Store, id)
		if err != nil || o.Kind != "commit" {
			continue
		}
		cm, err := gitfmt.DecodeCommit(id, o.Data)
		if err != nil {
			continue
		}
		rec := &CommitRec{ID: id, Message: cm.Message, Tree: cm.Tree}
		if len(cm.Parents) > 0 {
			rec.Parent = cm.Parents[0]
		}
		// the snapshot a commit should hold is the staging area it was made from
		rec.Snapshot = map[string]string{}
		for p, v := range c.Pre.IdxMap {
			rec.Snapshot[p] = v
		}
		c.H.Commits[id] = rec
		c.H.Order = append(c.H.Order, id)
	}
}

// Finish runs the End hook.
func (e *Exec) Finish() error {
	if e.P.End != nil {
		if err := e.P.End(e.Box, e.H, e.Cur); err != nil {
			return &Violation{"end", len(e.Sc.Steps), err}
		}
	}
	return nil
}

// ReplayScenario runs saved steps through the same execution layer (no rapid).
func ReplayScenario(p *Profile, sc *Scenario) error {
	e := NewExec(p)
	defer e.Close()
	for _, st := range sc.Steps {
		if err := e.Do(st); err != nil {
			return err
		}
	}
	return e.Finish()
}

// fail saves the scenario as a replay file and returns the message for t.Fatalf.
func fail(p *Profile, sc *Scenario, err error) string {
	findings.Save(p.ID, "scenario", sc, err)
	return fmt.Sprintf("property %s violated: %v\nscenario (%d steps):\n  %s", p.ID, err, len(sc.Steps), strings.Join(sc.Render(), "\n  "))
}

func sampleScenario(sc *Scenario) {
	if stats.WantSample() {
		stats.Sample(sc.Render())
	}
}

func mustJSON(v interface{}) string { b, _ := json.Marshal(v); return string(b) }

func timeAt(i int) time.Time { return time.Unix(1_100_000_000+int64(i)*1009, 0) }
