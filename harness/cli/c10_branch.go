package cli

import (
	"fmt"
	"sort"
	"strings"

	"github.com/JunNishimura/Goit/verifharness/core/gitfmt"
	"github.com/JunNishimura/Goit/verifharness/core/sbx"
	"github.com/JunNishimura/Goit/verifharness/core/stats"
)

// C10 — branch and HEAD state machine.

func validBranchName(n string) bool {
	return n != "" && n != "." && n != ".." && !strings.ContainsAny(n, "/\\")
}

func copyMap(m map[string]string) map[string]string {
	o := make(map[string]string, len(m))
	for k, v := range m {
		o[k] = v
	}
	return o
}

// expectBranchOp computes, from the state before, what the statement's rules say
// about the step: refused (nothing changes) or the new (branches, HEAD branch).
// ok=false means the step is not a branch-machine operation.
func expectBranchOp(c *Ctx) (refused bool, br map[string]string, head []string, ok bool) {
	if c.Step.Op != "goit" {
		return
	}
	a := c.Step.Args
	pre := c.Pre
	br = copyMap(pre.Branches)
	head = []string{pre.HeadBr}
	cur := pre.HeadCommit()
	exists := func(n string) bool { _, ok := pre.Branches[n]; return ok }
	switch {
	case a[0] == "branch" && len(a) == 2 && !strings.HasPrefix(a[1], "-"):
		n := a[1]
		if exists(n) || cur == "" || !validBranchName(n) {
			return true, nil, nil, true
		}
		br[n] = cur
		return false, br, head, true
	case a[0] == "branch" && len(a) == 3 && (a[1] == "-d" || a[1] == "--delete"):
		n := a[2]
		if !exists(n) || n == pre.HeadBr {
			return true, nil, nil, true
		}
		delete(br, n)
		return false, br, head, true
	case a[0] == "branch" && len(a) == 3 && (a[1] == "-r" || a[1] == "--rename"):
		n := a[2]
		if exists(n) || cur == "" || !validBranchName(n) {
			return true, nil, nil, true
		}
		delete(br, pre.HeadBr)
		br[n] = cur
		return false, br, []string{n}, true
	case a[0] == "switch" && len(a) == 2 && !strings.HasPrefix(a[1], "-"):
		if !exists(a[1]) {
			return true, nil, nil, true
		}
		return false, br, []string{a[1]}, true
	case a[0] == "switch" && len(a) == 3 && (a[1] == "-c" || a[1] == "--create"):
		n := a[2]
		if exists(n) || cur == "" || !validBranchName(n) {
			return true, nil, nil, true
		}
		br[n] = cur
		return false, br, []string{n}, true
	case a[0] == "update-ref" && len(a) == 3:
		if !strings.HasPrefix(a[1], "refs/heads/") {
			return true, nil, nil, true
		}
		n := strings.TrimPrefix(a[1], "refs/heads/")
		o, err := gitfmt.ReadObject(pre.Store, a[2])
		if !exists(n) || err != nil || o.Kind != "commit" {
			return true, nil, nil, true
		}
		br[n] = a[2]
		// whether update-ref also makes HEAD name that branch is not constrained by the statement
		return false, br, []string{pre.HeadBr, n}, true
	}
	return false, nil, nil, false
}

func oracleBranchMachine(c *Ctx) error {
	if c.Step.Op != "goit" || !c.Pre.HasGoit {
		return nil
	}
	if c.Res.Panic || c.Res.Timeout {
		return fmt.Errorf("%s crashed or hung: %s", c.Step, c.Res)
	}
	refused, wantBr, wantHead, ok := expectBranchOp(c)
	pre, post := c.Pre, c.Post
	if ok {
		if refused {
			stats.Label("branch-machine:refusal")
			c.H.Data["refusals"] = asInt(c.H.Data["refusals"]) + 1
			if c.Res.Exit != 1 {
				return fmt.Errorf("%s must be refused (branches %v, HEAD %q), exit=%d", c.Step, pre.BranchNames(), pre.HeadBr, c.Res.Exit)
			}
			if d := sbx.Diff(pre.Goit, post.Goit, nil); len(d) > 0 {
				return fmt.Errorf("refused %s changed .goit: %v", c.Step, d)
			}
		} else {
			if c.Res.Exit != 0 {
				return fmt.Errorf("%s is allowed by the rules (branches %v, HEAD %q) but failed: %s", c.Step, pre.BranchNames(), pre.HeadBr, c.Res)
			}
			if d := mapDiffPlain(wantBr, post.Branches); len(d) > 0 {
				return fmt.Errorf("after %s the branches are not as the rules say: %v", c.Step, d)
			}
			okHead := false
			for _, h := range wantHead {
				if post.Head == "ref: refs/heads/"+h {
					okHead = true
				}
			}
			if !okHead {
				return fmt.Errorf("after %s HEAD is %q, want one of %v", c.Step, post.Head, wantHead)
			}
			kinds, _ := c.H.Data["mutKinds"].(map[string]bool)
			if kinds == nil {
				kinds = map[string]bool{}
			}
			k := c.Step.Args[0]
			if len(c.Step.Args) > 2 {
				k += c.Step.Args[1]
			}
			kinds[k] = true
			c.H.Data["mutKinds"] = kinds
		}
	} else {
		// commit / reset / everything else: only the current branch may move, HEAD keeps naming it
		sub := c.Step.Args[0]
		if post.Head != pre.Head {
			return fmt.Errorf("%s changed HEAD from %q to %q", c.Step, pre.Head, post.Head)
		}
		for n, v := range pre.Branches {
			if n == pre.HeadBr && (sub == "commit" || sub == "reset") {
				continue
			}
			if post.Branches[n] != v {
				return fmt.Errorf("%s changed branch %q: %q -> %q", c.Step, n, v, post.Branches[n])
			}
		}
		for n := range post.Branches {
			if _, ok := pre.Branches[n]; !ok && !(n == pre.HeadBr && sub == "commit") {
				return fmt.Errorf("%s created branch %q", c.Step, n)
			}
		}
	}
	// `branch --list` and `rev-parse` report exactly the stored state
	names := post.BranchNames()
	r := c.Goit("branch", "--list")
	if r.Exit != 0 || r.Panic {
		return fmt.Errorf("branch --list failed: %s", r)
	}
	got, cur := ParseBranchList(r.Stdout)
	if strings.Join(got, "\n") != strings.Join(names, "\n") {
		return fmt.Errorf("branch --list prints %q, stored branches in ascending order are %q", got, names)
	}
	if _, ok := post.Branches[post.HeadBr]; ok && cur != post.HeadBr {
		return fmt.Errorf("branch --list marks %q as current, HEAD names %q", cur, post.HeadBr)
	}
	if len(names) > 0 {
		// `rev-parse HEAD` means the current branch: a branch that is itself named "HEAD" cannot be asked for
		// by name, so it is left out of the query (other letter cases, `head`, `Head`, are ordinary names)
		var query []string
		for _, n := range names {
			if n != "HEAD" {
				query = append(query, n)
			}
		}
		args := append([]string{"rev-parse", "HEAD"}, query...)
		r = c.Goit(args...)
		if r.Exit != 0 || r.Panic {
			return fmt.Errorf("rev-parse failed: %s", r)
		}
		want := []string{post.HeadCommit()}
		for _, n := range query {
			want = append(want, post.Branches[n])
		}
		if strings.TrimSuffix(r.Stdout, "\n") != strings.Join(want, "\n") {
			return fmt.Errorf("rev-parse HEAD %v prints %q, stored ids are %q", names, r.Stdout, want)
		}
	}
	if kinds, _ := c.H.Data["mutKinds"].(map[string]bool); len(kinds) >= 2 && asInt(c.H.Data["refusals"]) >= 1 {
		sk, _ := c.H.Data["skeleton"].([]string)
		stats.Nontrivial(strings.Join(sk, " ") + "#" + strings.Join(names, ","))
	}
	return nil
}

func asInt(v interface{}) int { i, _ := v.(int); return i }

var profBranch = register(&Profile{
	ID: "C10", Name: "branch",
	Oracles: []Oracle{{Name: "skeleton", After: func(c *Ctx) error {
		xs, _ := c.H.Data["skeleton"].([]string)
		if c.Step.Op == "goit" {
			xs = append(xs, strings.Join(c.Step.Args, "_"))
		}
		c.H.Data["skeleton"] = xs
		return nil
	}}, {Name: "branch-machine", After: oracleBranchMachine}},
})

var branchWeights = Weights{"write-new": 6, "modify": 8, "add": 12, "commit": 12, "reset": 6,
	"branch": 14, "branch-d": 12, "branch-r": 12, "switch": 12, "switch-c": 10, "update-ref": 10}

// ---------------------------------------------------------------- exhaustive exploration

// cloneExec copies the executor with its on-disk state, so that a node of the
// exploration tree costs one command instead of a replay of its whole prefix.
func cloneExec(e *Exec) *Exec {
	n := &Exec{P: e.P, Box: e.Box.Clone(), H: cloneHistory(e.H), Sc: &Scenario{Profile: e.Sc.Profile, Steps: append([]Step{}, e.Sc.Steps...)}}
	n.Cur = Observe(n.Box)
	return n
}

func cloneHistory(h *History) *History {
	n := NewHistory()
	for k := range h.PathsEver {
		n.PathsEver[k] = true
	}
	for k := range h.EverStaged {
		n.EverStaged[k] = true
	}
	for k, v := range h.StagedIDs {
		n.StagedIDs[k] = map[string]bool{}
		for id := range v {
			n.StagedIDs[k][id] = true
		}
	}
	for k, v := range h.Commits {
		n.Commits[k] = v
	}
	n.Order = append([]string{}, h.Order...)
	n.TZMin = h.TZMin
	n.StepNo = h.StepNo
	for k, v := range h.Data {
		switch t := v.(type) {
		case []string:
			n.Data[k] = append([]string{}, t...)
		case map[string]bool:
			m := map[string]bool{}
			for a, b := range t {
				m[a] = b
			}
			n.Data[k] = m
		default:
			n.Data[k] = v
		}
	}
	return n
}

// branchAlphabet: every operation of the alphabet for the state `e` is in.
// Names are prefixes of each other and not in sorted order of creation.
var exhaustiveNames = []string{"b", "a.b", "a"}

func branchAlphabet(e *Exec) []Step {
	var out []Step
	for _, n := range exhaustiveNames {
		out = append(out, goit("branch", n), goit("branch", "-d", n), goit("branch", "-r", n), goit("switch", n), goit("switch", "-c", n))
		for i, id := range e.H.Order {
			if i < 2 {
				out = append(out, goit("update-ref", "refs/heads/"+n, id))
			}
		}
	}
	out = append(out, Step{Op: "commit*"}, goit("reset", "--soft", "HEAD@{1}"), goit("switch", "main"), goit("branch", "-d", "main"))
	return out
}

// exploreBranch walks all sequences of the alphabet up to the given depth.
func exploreBranch(e *Exec, depth int, onNode func(sc *Scenario), count *int) error {
	if depth == 0 {
		return nil
	}
	for _, st := range branchAlphabet(e) {
		n := cloneExec(e)
		var err error
		if st.Op == "commit*" {
			// a commit needs a staged change: write, add, commit count as one operation
			body := fmt.Sprintf("%d\n", len(n.Sc.Steps))
			for _, s := range []Step{{Op: "write", Path: "f", Data: []byte(body)}, goit("add", "f"), goit("commit", "-m", "c")} {
				if err = n.Do(s); err != nil {
					break
				}
			}
		} else {
			err = n.Do(st)
		}
		*count++
		if err != nil {
			sc := n.Sc
			n.Close()
			if v, ok := err.(*Violation); ok {
				return fmt.Errorf("%s", fail(e.P, sc, v))
			}
			return err
		}
		if onNode != nil {
			onNode(n.Sc)
		}
		err = exploreBranch(n, depth-1, onNode, count)
		n.Close()
		if err != nil {
			return err
		}
	}
	return nil
}

func sortedCopy(xs []string) []string { o := append([]string{}, xs...); sort.Strings(o); return o }
