package cli

import (
	"fmt"
	"sort"
	"strings"

	"github.com/JunNishimura/Goit/verifharness/core/gitfmt"
	"github.com/JunNishimura/Goit/verifharness/core/sbx"
	"github.com/JunNishimura/Goit/verifharness/core/stats"
)

// C02 — a successful commit records exactly the staged snapshot and extends the current branch.

// effectiveIdentity reads name and e-mail from the config files with the
// independent reader: local over global.
func effectiveIdentity(o *Obs) (name, email string, err error) {
	loc, err := gitfmt.ParseConfig([]byte(o.Goit.Files["config"]))
	if err != nil {
		return "", "", err
	}
	glob, err := gitfmt.ParseConfig([]byte(o.Home.Files[".goitconfig"]))
	if err != nil {
		return "", "", err
	}
	get := func(k string) string {
		if v, ok := loc["user"][k]; ok {
			return v
		}
		return glob["user"][k]
	}
	return get("name"), get("email"), nil
}

func commitMessageArg(args []string) string {
	for i, a := range args {
		if (a == "-m" || a == "--message") && i+1 < len(args) {
			return args[i+1]
		}
	}
	return ""
}

func oracleCommit(c *Ctx) error {
	if !c.IsGoit("commit") || c.Res.Exit != 0 {
		return nil // C02 speaks about successful commits only
	}
	if c.Res.Panic {
		return fmt.Errorf("commit crashed")
	}
	pre, post := c.Pre, c.Post
	br := pre.HeadBr
	// (5) HEAD still names the same branch; other branches, the staging area and the working tree are untouched
	if post.Head != pre.Head {
		return fmt.Errorf("commit changed HEAD from %q to %q", pre.Head, post.Head)
	}
	for n, v := range pre.Branches {
		if n != br && post.Branches[n] != v {
			return fmt.Errorf("commit changed branch %q: %q -> %q", n, v, post.Branches[n])
		}
	}
	for n := range post.Branches {
		if _, ok := pre.Branches[n]; !ok && n != br {
			return fmt.Errorf("commit created branch %q", n)
		}
	}
	if pre.Goit.Files["index"] != post.Goit.Files["index"] {
		return fmt.Errorf("commit changed the staging area file")
	}
	if d := sbx.DiffFiles(pre.Work, post.Work, nil); len(d) > 0 {
		return fmt.Errorf("commit changed the working tree: %v", d)
	}
	// (1) the current branch names a commit that differs from the previous tip
	tip := post.Branches[br]
	if !gitfmt.IsHex40(tip) {
		return fmt.Errorf("after commit branch %q holds %q, not a full id", br, tip)
	}
	old := pre.Branches[br]
	if tip == old {
		return fmt.Errorf("commit succeeded but branch %q did not move", br)
	}
	cm, err := gitfmt.ReadCommit(post.Store, tip)
	if err != nil {
		return fmt.Errorf("branch %q names %s, which is not a readable commit: %v", br, tip, err)
	}
	// exactly one commit object is new (or an identical one already existed), no blob is new
	nCommits := 0
	for _, id := range newObjects(c) {
		o, err := gitfmt.ReadObject(post.Store, id)
		if err != nil {
			return fmt.Errorf("commit wrote an unreadable object %s: %v", id, err)
		}
		switch o.Kind {
		case "commit":
			nCommits++
			if id != tip {
				return fmt.Errorf("commit wrote a commit object %s that the branch does not point to", id)
			}
		case "blob":
			return fmt.Errorf("commit wrote a blob %s", id)
		}
	}
	if nCommits > 1 {
		return fmt.Errorf("commit created %d commit objects", nCommits)
	}
	if nCommits == 0 && !pre.Objects[tip] {
		return fmt.Errorf("commit object %s missing", tip)
	}
	// (2) snapshot == staging area, as a multiset of (path, id); every referenced object exists with the right kind
	flat, err := gitfmt.FlattenTree(post.Store, cm.Tree)
	if err != nil {
		return fmt.Errorf("snapshot of new commit %s is not intact: %v", tip, err)
	}
	var got, want []string
	for _, f := range flat {
		got = append(got, f.Path+"\x00"+f.ID)
	}
	for _, e := range pre.Index.Entries {
		want = append(want, e.Path+"\x00"+e.ID)
	}
	sort.Strings(got)
	sort.Strings(want)
	if strings.Join(got, "\n") != strings.Join(want, "\n") {
		gm := map[string]string{}
		for _, f := range flat {
			gm[f.Path] = f.ID
		}
		return fmt.Errorf("snapshot of the new commit differs from the staging area (%d vs %d pairs): %v", len(got), len(want), mapDiff(pre.IdxMap, gm))
	}
	// (3) every blob holds the bytes the file had when it was last staged
	for _, f := range flat {
		ids := c.H.StagedIDs[f.Path]
		if ids != nil && !ids[f.ID] {
			return fmt.Errorf("blob %s recorded for %q was never the content of that file at an add", f.ID, f.Path)
		}
		if last, ok := c.H.LastStaged[f.Path]; ok && last != f.ID {
			return fmt.Errorf("blob %s recorded for %q, but the bytes the file had when it was last staged have blob id %s", f.ID[:8], f.Path, last[:8])
		}
	}
	// (4) parents: exactly the previous tip, none for the first commit on an unborn branch
	if old == "" {
		if len(cm.Parents) != 0 {
			return fmt.Errorf("first commit on %q has parents %v", br, cm.Parents)
		}
	} else if len(cm.Parents) != 1 || cm.Parents[0] != old {
		return fmt.Errorf("new commit's parents are %v, the branch pointed to %s before", cm.Parents, old)
	}
	// (6) identity and message
	name, email, err := effectiveIdentity(pre)
	if err != nil {
		return nil // config not in the documented layout: C20's business
	}
	for _, s := range []gitfmt.Sign{cm.Author, cm.Committer} {
		if s.Name != name || s.Email != email {
			return fmt.Errorf("commit records identity %q <%s>, configured is %q <%s>", s.Name, s.Email, name, email)
		}
	}
	if cm.Author.Raw != cm.Committer.Raw {
		return fmt.Errorf("author %q and committer %q differ", cm.Author.Raw, cm.Committer.Raw)
	}
	msg := commitMessageArg(c.Step.Args)
	if cm.Message != msg+"\n" {
		return fmt.Errorf("recorded message %q, given %q", cm.Message, msg)
	}
	// classification
	nested, family := false, false
	for _, f := range flat {
		if strings.Contains(f.Path, "/") {
			nested = true
		}
	}
	family = hasBetweenSibling(pre.Tracked())
	stats.LabelIf(nested, "commit:nested-snapshot")
	stats.LabelIf(family, "commit:between-sibling-family")
	stats.LabelIf(old != "", "commit:has-parent")
	stats.LabelIf(len(flat) == 0, "commit:empty-snapshot")
	stats.Label("commit:successful")
	if len(flat) >= 2 && nested || family || old != "" {
		stats.Nontrivial(fmt.Sprintf("%s#%v#%d", strings.Join(pre.Tracked(), "|"), old != "", len(pre.Branches)))
	}
	return nil
}

// hasBetweenSibling: some directory d has a sibling name that sorts between "d" and "d/".
func hasBetweenSibling(paths []string) bool {
	dirs := map[string]bool{}
	names := map[string]bool{}
	for _, p := range paths {
		parts := strings.Split(p, "/")
		for i := range parts {
			full := strings.Join(parts[:i+1], "/")
			if i < len(parts)-1 {
				dirs[full] = true
			}
			names[full] = true
		}
	}
	for d := range dirs {
		for n := range names {
			if n != d && strings.HasPrefix(n, d) && !strings.HasPrefix(n, d+"/") && n < d+"/" && parentOf(n) == parentOf(d) {
				return true
			}
		}
	}
	return false
}

func parentOf(p string) string {
	i := strings.LastIndex(p, "/")
	if i < 0 {
		return ""
	}
	return p[:i]
}

var profCommit = register(&Profile{
	ID: "C02", Name: "commit",
	// the add oracle runs too: it records the blob ids computed from file bytes (clause 3)
	Oracles: []Oracle{{Name: "track-staged-bytes", After: func(c *Ctx) error { recordStagedIDs(c); return nil }}, {Name: "commit-exact", After: oracleCommit}},
})

// recordStagedIDs notes, for a successful add, the blob id of every named file's bytes.
func recordStagedIDs(c *Ctx) {
	if c.Step.Op == "goit" && !(c.IsGoit("add") && c.Res.Exit == 0) {
		// any other command that changes a staged entry (reset, restore --staged, rm): the entry it installs
		// comes from a commit or goes away; "last staged" follows the observed staging area
		for p, id := range c.Post.IdxMap {
			if c.Pre.IdxMap[p] != id {
				c.H.LastStaged[p] = id
			}
		}
		for p := range c.Pre.IdxMap {
			if _, ok := c.Post.IdxMap[p]; !ok {
				delete(c.H.LastStaged, p)
			}
		}
		return
	}
	if !c.IsGoit("add") || c.Res.Exit != 0 {
		return
	}
	note := func(p, content string) {
		if c.H.StagedIDs[p] == nil {
			c.H.StagedIDs[p] = map[string]bool{}
		}
		c.H.StagedIDs[p][blobID(content)] = true
		c.H.LastStaged[p] = blobID(content)
	}
	for _, a := range cleanArgsIn(c, c.Step.Args[1:]) {
		if content, ok := c.Pre.Work.Files[a]; ok {
			note(a, content)
		}
		if a == "." {
			for p, content := range c.Pre.Work.Files {
				note(p, content)
			}
		}
		if _, onDisk := c.Pre.Work.Files[a]; !onDisk && !c.Pre.Work.Dirs[a] {
			delete(c.H.LastStaged, a)
		}
		for p, content := range c.Pre.Work.Files {
			if under(a, p) {
				note(p, content)
			}
		}
	}
}

var commitWeights = Weights{"commit-repeat-message": 4, "dir-at-unstaged-file": 3, "file-at-unstaged-dir": 3, "write-new": 22, "modify": 12, "remove-file": 6, "rmdir": 2, "recreate": 3, "add": 28, "rm": 6, "commit": 22,
	"copydir": 4, "file2dir": 2, "revert": 6, "recreate-unstaged": 2, "restore": 3, "restore-staged": 4, "reset": 5, "branch": 3, "switch": 4, "switch-c": 3, "tz": 2}
