package cli

import (
	"fmt"
	"regexp"
	"strings"

	"github.com/JunNishimura/Goit/verifharness/core/gitfmt"
	"github.com/JunNishimura/Goit/verifharness/core/sbx"
	"github.com/JunNishimura/Goit/verifharness/core/stats"
)

// C20 — configuration round trip and precedence.

func parseBoth(o *Obs) (loc, glob gitfmt.Config, err error) {
	loc, err = gitfmt.ParseConfig([]byte(o.Goit.Files["config"]))
	if err != nil {
		return nil, nil, fmt.Errorf("local config not in the documented layout: %v", err)
	}
	glob, err = gitfmt.ParseConfig([]byte(o.Home.Files[".goitconfig"]))
	if err != nil {
		return nil, nil, fmt.Errorf("global config not in the documented layout: %v", err)
	}
	return
}

func cfgEqual(a, b gitfmt.Config) []string {
	var out []string
	for sec, kv := range a {
		for k, v := range kv {
			if w, ok := b[sec][k]; !ok {
				out = append(out, fmt.Sprintf("[%s] %s lost (was %q)", sec, k, v))
			} else if w != v {
				out = append(out, fmt.Sprintf("[%s] %s changed: %q -> %q", sec, k, v, w))
			}
		}
	}
	for sec, kv := range b {
		for k, v := range kv {
			if _, ok := a[sec][k]; !ok {
				out = append(out, fmt.Sprintf("[%s] %s appeared (%q)", sec, k, v))
			}
		}
	}
	return out
}

func oracleConfig(c *Ctx) error {
	if c.Step.Op != "goit" || !c.Pre.HasGoit {
		return nil
	}
	if c.Res.Panic || c.Res.Timeout {
		return fmt.Errorf("%s crashed or hung: %s", c.Step, c.Res)
	}
	switch c.Step.Args[0] {
	case "config":
		if c.Step.Note == "invalid" {
			return nil
		}
		global := false
		var rest []string
		for _, a := range c.Step.Args[1:] {
			if a == "--global" {
				global = true
			} else {
				rest = append(rest, a)
			}
		}
		if len(rest) != 2 {
			return nil
		}
		dot := strings.SplitN(rest[0], ".", 2)
		sec, key, val := dot[0], dot[1], rest[1]
		preLoc, preGlob, err := parseBoth(c.Pre)
		if err != nil {
			return nil // an earlier step already left an unreadable file and was reported then
		}
		// what one "key = value" line cannot hold (a line break; a key with '=', with a tab or with blanks at its ends) lies
		// outside the stated domain: it may be refused (then nothing changes), or it has to round-trip like any other
		outside := strings.ContainsAny(rest[0]+val, "\n\r") || strings.ContainsAny(key, "=\t") || strings.TrimSpace(key) != key
		if outside && c.Res.Exit == 1 && !c.Res.Panic {
			stats.Label("config:unrepresentable-argument-refused")
			return unchangedAll(c, "config refused an argument")
		}
		if c.Res.Exit != 0 {
			return fmt.Errorf("config %q failed: %s", rest, c.Res)
		}
		postLoc, postGlob, err := parseBoth(c.Post)
		if err != nil {
			return fmt.Errorf("after %s: %v", c.Step, err)
		}
		// the model: the target file gains exactly this value, nothing else changes
		want, other, got, otherGot := preLoc, preGlob, postLoc, postGlob
		if global {
			want, other, got, otherGot = preGlob, preLoc, postGlob, postLoc
		}
		if want[sec] == nil {
			want[sec] = map[string]string{}
		}
		want[sec][key] = val
		if d := cfgEqual(want, got); len(d) > 0 {
			return fmt.Errorf("after %s the target file does not hold exactly the model: %v", c.Step, d)
		}
		if d := cfgEqual(other, otherGot); len(d) > 0 {
			return fmt.Errorf("%s altered the other config file: %v", c.Step, d)
		}
		if d := sbx.Diff(c.Pre.Goit, c.Post.Goit, func(rel string) bool { return rel == "config" }); len(d) > 0 {
			return fmt.Errorf("%s changed repository files other than config: %v", c.Step, d)
		}
		special := strings.ContainsAny(val, "=[]#\"' ") || !isASCII(val)
		nkeys := 0
		for _, kv := range got {
			nkeys += len(kv)
		}
		stats.LabelIf(special, "config:special-value")
		stats.LabelIf(global, "config:global")
		stats.LabelIf(strings.Contains(val, "="), "config:value-with-equals")
		if nkeys >= 2 && len(got) >= 2 || special {
			sk, _ := c.H.Data["writes"].([]string)
			sk = append(sk, joinArgs(c.Step.Args[1:]))
			c.H.Data["writes"] = sk
			stats.Nontrivial(strings.Join(sk, ";"))
		}
	case "commit":
		loc, glob, err := parseBoth(c.Pre)
		if err != nil {
			return nil
		}
		get := func(k string) (string, bool) {
			if v, ok := loc["user"][k]; ok {
				return v, true
			}
			v, ok := glob["user"][k]
			return v, ok
		}
		name, nok := get("name")
		email, eok := get("email")
		if !nok || !eok {
			// refused, without side effects, until both are configured
			stats.Label("commit:identity-unset")
			stats.Nontrivial(fmt.Sprintf("unset#%v#%v#%v", nok, eok, len(c.Pre.IdxMap)))
			if c.Res.Exit != 1 {
				return fmt.Errorf("commit without a configured name and e-mail was not refused: %s", c.Res)
			}
			return unchangedAll(c, "commit was refused for lack of identity")
		}
		if c.Res.Exit != 0 {
			// "is the value later commands use": with a usable identity (a name without '<', an e-mail of the plain
			// shape) and something staged that HEAD does not hold, the commit has to go through
			usable := !strings.Contains(name, "<") && plainEmail.MatchString(email)
			differs := len(c.Pre.IdxMap) > 0
			if hc := c.Pre.HeadCommit(); hc != "" {
				if snap, err := c.Pre.Snapshot(hc); err == nil {
					differs = len(mapDiff(snap, c.Pre.IdxMap)) > 0
				} else {
					differs = false
				}
			}
			if usable && differs && !c.Res.Panic && !c.Res.Timeout {
				return fmt.Errorf("name %q and e-mail %q are configured and the staging area differs from HEAD, yet commit fails: %s", name, email, c.Res)
			}
			return nil
		}
		cm, err := gitfmt.ReadCommit(c.Post.Store, c.Post.HeadCommit())
		if err != nil {
			return nil
		}
		_, lName := loc["user"]["name"]
		_, gName := glob["user"]["name"]
		_, lMail := loc["user"]["email"]
		_, gMail := glob["user"]["email"]
		stats.Label(fmt.Sprintf("identity:name(local=%v,global=%v) email(local=%v,global=%v)", lName, gName, lMail, gMail))
		stats.LabelIf(lName && gName || lMail && gMail, "identity:local-overrides-global")
		if lName && gName || lMail && gMail {
			stats.Nontrivial(fmt.Sprintf("override#%v%v%v%v#%s#%s", lName, gName, lMail, gMail, name, email))
		}
		if cm.Author.Name != name || cm.Author.Email != email {
			return fmt.Errorf("commit uses identity %q <%s>; effective configuration (local over global) is %q <%s>", cm.Author.Name, cm.Author.Email, name, email)
		}
		// what the value round trip means for users: cat-file shows the configured value
		r := c.Goit("cat-file", "-p", c.Post.HeadCommit())
		if r.Exit != 0 || !strings.Contains(r.Stdout, "author "+name+" <"+email+"> ") {
			return fmt.Errorf("cat-file -p of the new commit does not show 'author %s <%s>': %s", name, email, r)
		}
	}
	return nil
}

var plainEmail = regexp.MustCompile(`^[a-zA-Z0-9_][a-zA-Z0-9_.+-]*@[a-z0-9]([a-z0-9-]*[a-z0-9])?(\.[a-z0-9]+)*\.[a-zA-Z]{2,}$`)

func isASCII(s string) bool {
	for i := 0; i < len(s); i++ {
		if s[i] >= 0x80 {
			return false
		}
	}
	return true
}

var profConfig = register(&Profile{
	ID: "C20", Name: "config",
	Oracles: []Oracle{{Name: "config", After: oracleConfig}},
})

var cfgSections = []string{"user", "core", "alias-x", "user", "core", "[x]", "x]"}
var cfgKeys = []string{"name", "email", "editor", "name", "email", "[wip]", "[a", "b]", "#k", ";k", "email=old", " name", "k ", "na\tme", "e\tmail"}

func (g *G) configValue() string {
	words := []string{"two\nlines", "the [boss]", "b]", "#2", ";x", "->", ">", "v", "a=b", "=", "x=y=z", "[sec]", "]", "[", "#c", "\"q\"", "'s'", "é", "日本", "a", "key = val", "1", "a.b", ";", "\\", "%s", "$HOME", "~", "<x>"}
	if g.Chance(6, "longValue") {
		// a long value: the config line crosses internal buffer sizes (4096, 8192)
		n := g.Pick2([]int{4080, 4087, 4088, 4089, 4096, 4100, 5000, 8185, 8192, 9000, 300, 1000}, "valueLen")
		return strings.Repeat("v", n-4) + " a=b"
	}
	n := g.Int(1, 3, "nwords")
	var parts []string
	for i := 0; i < n; i++ {
		parts = append(parts, g.Pick(words, "word"))
	}
	v := strings.Join(parts, " ")
	if strings.HasPrefix(v, "-") {
		v = "x" + v
	}
	return v
}

func init() {
	ops = append(ops,
		opGen{"config-set", always, func(g *G) Step {
			args := []string{"config"}
			if g.Chance(40, "global") {
				args = append(args, "--global")
			}
			sec, key := g.Pick(cfgSections, "sec"), g.Pick(cfgKeys, "key")
			var val string
			switch {
			case sec == "user" && key == "name" && g.Chance(70, "realName"):
				val = g.UserName()
			case sec == "user" && key == "email" && g.Chance(70, "realMail"):
				val = g.Email()
			default:
				val = g.configValue()
			}
			return goit(append(args, sec+"."+key, val)...)
		}},
		opGen{"stage-something", always, func(g *G) Step {
			return Step{Op: "write", Path: "c.txt", Data: []byte(fmt.Sprintf("%d\n", g.E.H.StepNo))}
		}},
		opGen{"forget-global-config", func(g *G) bool { return g.E.Cur.HeadCommit() != "" }, func(g *G) Step {
			// an identity that was complete when the history began is incomplete later
			return Step{Op: "forget-global-config"}
		}},
		opGen{"add-c", func(g *G) bool { return hasFile(g.E.Cur, "c.txt") }, func(g *G) Step { return goit("add", "c.txt") }},
	)
}

var configWeights = Weights{"config-set": 50, "stage-something": 12, "add-c": 14, "commit": 24, "forget-global-config": 4}
