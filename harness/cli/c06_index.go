package cli

import (
	"fmt"
	"strings"

	"github.com/JunNishimura/Goit/verifharness/core/stats"
)

// C06 (CLI layer) — after every command that modifies it, the staging-area file
// decodes to the entries last written, strictly ascending, and ls-files agrees;
// directory operations (rm d, restore d, add <tracked path>) select exactly the
// tracked paths beneath the directory (the C04 / C09 oracles run in this profile too).

func oracleIndexCanonical(c *Ctx) error {
	if c.Step.Op != "goit" || !c.Post.HasGoit {
		return nil
	}
	if c.Pre.Goit.Files["index"] == c.Post.Goit.Files["index"] {
		return nil
	}
	if c.Post.Index == nil {
		return fmt.Errorf("after %s the staging-area file does not decode: %v", c.Step, c.Post.IndexErr)
	}
	ix := c.Post.Index
	if int(ix.Count) != len(ix.Entries) {
		return fmt.Errorf("after %s the entry count field is %d for %d entries", c.Step, ix.Count, len(ix.Entries))
	}
	if err := ix.Canonical(); err != nil {
		return fmt.Errorf("after %s: %v", c.Step, err)
	}
	r := c.Goit("ls-files", "-s")
	if r.Exit != 0 || r.Panic {
		return fmt.Errorf("ls-files -s failed: %s", r)
	}
	var want []string
	for _, e := range ix.Entries {
		want = append(want, e.ID+"    "+e.Path)
	}
	if strings.TrimSuffix(r.Stdout, "\n") != strings.Join(want, "\n") {
		return fmt.Errorf("after %s, ls-files -s does not print the decoded file content in order:\n%q\nvs file:\n%q", c.Step, r.Stdout, want)
	}
	// every tracked path is addressable: it is accepted by add
	paths := c.Post.Tracked()
	stats.LabelIf(hasBetweenSibling(paths), "index:between-sibling-family")
	if hasBetweenSibling(paths) || hasPrefixPair(paths) {
		stats.Nontrivial(strings.Join(paths, "\x00"))
	}
	return nil
}

func hasPrefixPair(paths []string) bool {
	for _, a := range paths {
		for _, b := range paths {
			if a != b && strings.Contains(b, strings.SplitN(a, "/", 2)[0]) {
				return true
			}
		}
	}
	return false
}

var profIndex = register(&Profile{
	ID: "C06", Name: "index",
	Oracles: []Oracle{{Name: "index-canonical", After: oracleIndexCanonical}, {Name: "add-exact", After: oracleAdd}, {Name: "rm-exact", After: oracleRm}, {Name: "restore-exact", After: oracleRestore}},
})

var indexWeights = Weights{"dir-at-unstaged-file": 3, "file-at-unstaged-dir": 3, "write-new": 22, "modify": 8, "remove-file": 8, "rmdir": 6, "add": 24, "rm": 12, "commit": 8, "restore": 8, "restore-staged": 6, "reset": 8, "recreate": 3}
