package cli

import "testing"

func TestC04(t *testing.T) {
	runProfile(t, profStage, runOpts{weights: stageWeights, fullContent: true, seedFiles: 2, decorate: true, pre: func(g *G) []Step {
		// a quarter of the histories have an ignore list (written before anything is staged, rewritten later by `ignore-more`)
		if g.Chance(25, "withIgnore") {
			return []Step{{Op: "write", Path: ".goitignore", Data: g.IgnoreFile()}}
		}
		return nil
	}})
}
