package cli

import "testing"

func TestC04(t *testing.T) {
	runProfile(t, profStage, runOpts{weights: stageWeights, fullContent: true, seedFiles: 2, decorate: true})
}
