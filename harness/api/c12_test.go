package api

import (
	"encoding/json"
	"fmt"
	"os"
	"strings"
	"testing"
	"time"

	"github.com/JunNishimura/Goit/internal/object"
	"github.com/JunNishimura/Goit/verifharness/core/findings"
	"github.com/JunNishimura/Goit/verifharness/core/gitfmt"
	"github.com/JunNishimura/Goit/verifharness/core/stats"
	"github.com/JunNishimura/Goit/verifharness/core/tz"
	"pgregory.net/rapid"
)

// C12 (API layer): Sign.String -> commit bytes -> NewObject -> NewCommit, for
// names x e-mails x instants x all 105 quarter-hour offsets x messages.

type c12Case struct {
	Name      string `json:"name"`
	Email     string `json:"email"`
	Secs      int64  `json:"secs"`
	OffsetMin int    `json:"offset_min"`
	Message   string `json:"message"`
	Parent    bool   `json:"parent"`
	// the zone of the READING process, when it is not UTC: BeforeMin until the instant SwitchAt, AfterMin since
	Reader *c12Reader `json:"reader,omitempty"`
}

type c12Reader struct {
	BeforeMin int   `json:"before_min"`
	AfterMin  int   `json:"after_min"`
	SwitchAt  int64 `json:"switch_at"`
}

func runC12(c *c12Case) error {
	loc := time.FixedZone("x", c.OffsetMin*60)
	sign := object.Sign{Name: c.Name, Email: c.Email, Timestamp: time.Unix(c.Secs, 0).In(loc)}
	var line string
	if err := guard("Sign.String", func() error { line = sign.String(); return nil }); err != nil {
		return err
	}
	// the stored line has the Git form, checked by an independent parser
	want := fmt.Sprintf("%s <%s> %d %s", c.Name, c.Email, c.Secs, tz.Format(c.OffsetMin))
	if line != want {
		return fmt.Errorf("Sign.String() = %q, the Git form is %q", line, want)
	}
	if s, err := gitfmt.ParseSign(line); err != nil || s.Offset != tz.Format(c.OffsetMin) || s.Secs != c.Secs {
		return fmt.Errorf("independent parser rejects %q: %v", line, err)
	}
	if c.Reader != nil {
		// what is read back is the stored instant and offset, whatever the rules of the reader's own zone are
		loc, err := time.LoadLocationFromTZData("reader", tz.BytesSwitch(c.Reader.BeforeMin*60, c.Reader.AfterMin*60, c.Reader.SwitchAt))
		if err != nil {
			return fmt.Errorf("harness: reader zone: %v", err)
		}
		saved := time.Local
		time.Local = loc
		defer func() { time.Local = saved }()
	}
	tree := strings.Repeat("ab", 20)
	data := fmt.Sprintf("tree %s\n", tree)
	if c.Parent {
		data += fmt.Sprintf("parent %s\n", strings.Repeat("cd", 20))
	}
	data += fmt.Sprintf("author %s\ncommitter %s\n\n%s\n", line, line, c.Message)
	var cm *object.Commit
	err := guard("NewCommit", func() error {
		o, e := object.NewObject(object.CommitObject, []byte(data))
		if e != nil {
			return e
		}
		cm, e = object.NewCommit(o)
		return e
	})
	if err != nil {
		return fmt.Errorf("commit written with sign line %q is rejected by the reader: %v", line, err)
	}
	for what, s := range map[string]object.Sign{"author": cm.Author, "committer": cm.Committer} {
		_, off := s.Timestamp.Zone()
		if s.Name != c.Name || s.Email != c.Email || s.Timestamp.Unix() != c.Secs || off != c.OffsetMin*60 {
			return fmt.Errorf("%s read back as %q <%s> instant %d offset %ds; written %q <%s> %d %ds", what, s.Name, s.Email, s.Timestamp.Unix(), off, c.Name, c.Email, c.Secs, c.OffsetMin*60)
		}
	}
	if cm.Message != c.Message {
		// the reader drops the final newline of the stored text; trailing newlines of the message itself are not comparable
		if strings.TrimRight(cm.Message, "\n") != strings.TrimRight(c.Message, "\n") {
			return fmt.Errorf("message read back as %q, written %q", cm.Message, c.Message)
		}
	}
	if cm.Tree.String() != tree || c.Parent != (len(cm.Parents) == 1) {
		return fmt.Errorf("tree/parents read back wrong: %s %v", cm.Tree, cm.Parents)
	}
	return nil
}

func init() {
	replayers["api-c12"] = func(_ string, raw json.RawMessage) error {
		var c c12Case
		if err := json.Unmarshal(raw, &c); err != nil {
			return err
		}
		return runC12(&c)
	}
}

var (
	genName  = rapid.StringMatching(`[A-Za-zé日%$&(][A-Za-z0-9é日.'%$&*",;!?@\[\]{}|~^+_/\\:=#)>-]{0,8}( [A-Za-z(%][A-Za-z0-9)>:=#%&*!]{0,6}){0,2}`)
	genEmail = rapid.StringMatching(`[a-zA-Z0-9_][a-zA-Z0-9_.+-]{0,14}@[a-zA-Z0-9]([a-zA-Z0-9-]{0,10}[a-zA-Z0-9])?(\.[a-z0-9]{1,9}){0,3}\.[a-zA-Z]{2,14}`)
)

func genMessage(t *rapid.T) string {
	plain := rapid.StringMatching(`[a-zA-Z0-9]{1,8}( [a-z]{1,6}){0,3}`)
	switch rapid.IntRange(0, 8).Draw(t, "msgClass") {
	case 0:
		return "fix: " + plain.Draw(t, "m")
	case 1:
		return plain.Draw(t, "m") + "\n\nbody line of three words\nsecond: line"
	case 2:
		return "ünï çödé: 日本語"
	case 3:
		n := rapid.IntRange(1, 10000).Draw(t, "long")
		if rapid.Bool().Draw(t, "nearBoundary") {
			n = []int{4095, 4096, 4097, 8191, 8192, 8193}[rapid.IntRange(0, 5).Draw(t, "b")]
		}
		return plain.Draw(t, "m") + "\n" + strings.Repeat("x", n) + "\ntail"
	case 4:
		return "tree " + strings.Repeat("ab", 20) + "\nauthor x"
	case 5:
		return "a\n\n\nb"
	case 6:
		return "\ttabbed\tmessage"
	default:
		return plain.Draw(t, "m")
	}
}

func TestC12API(t *testing.T) {
	offsets := tz.AllQuarterHours()
	i := 0
	rapid.Check(t, func(rt *rapid.T) {
		var off int
		if i < len(offsets) {
			off = offsets[i] // every offset in every run, before random ones
			i++
		} else {
			off = offsets[rapid.IntRange(0, len(offsets)-1).Draw(rt, "offset")]
		}
		secs := rapid.Int64Range(1, 1<<33).Draw(rt, "secs")
		if rapid.IntRange(0, 9).Draw(rt, "edge") == 0 {
			secs = []int64{1, 9, 10, 999999999, 1000000000, 1 << 31, 1<<31 - 1, 1 << 33}[rapid.IntRange(0, 7).Draw(rt, "edgeSecs")]
		}
		c := &c12Case{Name: genName.Draw(rt, "name"), Email: genEmail.Draw(rt, "email"), Secs: secs, OffsetMin: off, Message: genMessage(rt), Parent: rapid.Bool().Draw(rt, "parent")}
		if i > len(offsets)/2 && rapid.IntRange(0, 2).Draw(rt, "readerZone") > 0 {
			// the reading process lives in a zone with a transition; the interesting relation is
			// "stored offset = the reader's offset today, and the commit is older (or younger) than the transition"
			const past = 1750000000 // 2025: every transition drawn lies before the moment of the run
			r := &c12Reader{AfterMin: off, BeforeMin: offsets[rapid.IntRange(0, len(offsets)-1).Draw(rt, "readerBefore")]}
			switch rapid.IntRange(0, 3).Draw(rt, "readerRel") {
			case 0: // the stored offset is the one the reader's zone had BEFORE its transition
				r.AfterMin, r.BeforeMin = r.BeforeMin, off
			case 1: // unrelated zone
				r.AfterMin = offsets[rapid.IntRange(0, len(offsets)-1).Draw(rt, "readerAfter")]
			}
			if r.BeforeMin == r.AfterMin {
				r.BeforeMin = offsets[(i+7)%len(offsets)]
			}
			c.Secs = rapid.Int64Range(1, past-2).Draw(rt, "secsPast")
			if rapid.Bool().Draw(rt, "commitBeforeSwitch") {
				r.SwitchAt = c.Secs + rapid.Int64Range(1, past-c.Secs).Draw(rt, "switchAfterCommit")
			} else {
				r.SwitchAt = rapid.Int64Range(0, c.Secs).Draw(rt, "switchBeforeCommit")
			}
			c.Reader = r
			stats.LabelIf(r.AfterMin == off && r.SwitchAt > c.Secs, "reader-zone:stored offset = reader's offset today, commit older than the transition")
			stats.LabelIf(r.BeforeMin == off, "reader-zone:stored offset = reader's former offset")
		}
		stats.LabelIf(c.Reader != nil, "reader-zone:with a transition")
		stats.Eval()
		stats.LabelIf(off < 0, "offset:negative")
		stats.LabelIf(off%60 != 0, "offset:fractional-hour")
		stats.LabelIf(strings.Contains(c.Message, "\n"), "message:multi-line")
		if err := runC12(c); err != nil {
			findings.Save("C12", "api-c12", c, err)
			rt.Fatalf("C12 violated: %v", err)
		}
		if off != 0 || strings.Contains(c.Message, "\n") {
			stats.Nontrivial(fmt.Sprintf("%d#%s#%s#%d", off, c.Name, c.Message, c.Secs))
		}
		if stats.WantSample() && i > 3 {
			stats.Sample(c)
		}
	})
	if i >= len(offsets) && os.Getenv("VERIF_SHARD") == "0" {
		stats.Exhaustive("UTC offsets (quarter hours in [-12:00,+14:00]) covered by the API layer in every shard", len(offsets))
	}
}
