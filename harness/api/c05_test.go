package api

import (
	"encoding/hex"
	"encoding/json"
	"fmt"
	"os"
	"path/filepath"
	"strings"
	"testing"

	"github.com/JunNishimura/Goit/internal/object"
	"github.com/JunNishimura/Goit/verifharness/core/findings"
	"github.com/JunNishimura/Goit/verifharness/core/gitfmt"
	"github.com/JunNishimura/Goit/verifharness/core/stats"
	"pgregory.net/rapid"
)

// C05 (API layer): independent-encode a tree (with sub-trees) -> object.NewTree ->
// the children (names, ids, nesting) equal the independent decoding.

type c05Node struct {
	Name     string    `json:"name"`
	ID       string    `json:"id,omitempty"` // files
	Children []c05Node `json:"children,omitempty"`
}

type c05Case struct {
	Root []c05Node `json:"root"`
}

// writeTree stores the tree with the independent encoder and returns its id.
func writeTree(root string, nodes []c05Node) (string, error) {
	var es []gitfmt.TreeEntry
	for _, n := range nodes {
		if n.Children != nil {
			id, err := writeTree(root, n.Children)
			if err != nil {
				return "", err
			}
			es = append(es, gitfmt.TreeEntry{Mode: "040000", Name: n.Name, ID: id})
		} else {
			es = append(es, gitfmt.TreeEntry{Mode: "100644", Name: n.Name, ID: n.ID})
		}
	}
	id, raw := gitfmt.EncodeObject("tree", gitfmt.EncodeTree(es))
	p := filepath.Join(root, "objects", id[:2], id[2:])
	if err := os.MkdirAll(filepath.Dir(p), 0o755); err != nil {
		return "", err
	}
	return id, os.WriteFile(p, raw, 0o644)
}

func compareNodes(got []*object.Node, want []c05Node, where string) error {
	if len(got) != len(want) {
		var gn []string
		for _, g := range got {
			gn = append(gn, g.Name)
		}
		return fmt.Errorf("%s: reader sees %d children %q, the tree has %d", where, len(got), gn, len(want))
	}
	for i, w := range want {
		g := got[i]
		if g.Name != w.Name {
			return fmt.Errorf("%s: child %d is named %q by the reader, written as %q", where, i, g.Name, w.Name)
		}
		if w.Children == nil {
			if g.Hash.String() != w.ID || len(g.Children) != 0 {
				return fmt.Errorf("%s: file %q read back with id %s and %d children, written with id %s", where, w.Name, g.Hash, len(g.Children), w.ID)
			}
		} else if err := compareNodes(g.Children, w.Children, where+"/"+w.Name); err != nil {
			return err
		}
	}
	return nil
}

func runC05(c *c05Case) error {
	dir := scratchDir()
	defer os.RemoveAll(dir)
	root := filepath.Join(dir, ".goit")
	id, err := writeTree(root, c.Root)
	if err != nil {
		return err
	}
	o, err := gitfmt.ReadObject(gitfmt.DirStore(root), id)
	if err != nil {
		return err
	}
	var tree *object.Tree
	err = guard("NewTree", func() error {
		obj, e := object.NewObject(object.TreeObject, o.Data)
		if e != nil {
			return e
		}
		tree, e = object.NewTree(root, obj)
		return e
	})
	if err != nil {
		return fmt.Errorf("NewTree rejects a well-formed tree with %d entries: %v", len(c.Root), err)
	}
	return compareNodes(tree.Children, c.Root, "")
}

func init() {
	replayers["api-c05"] = func(_ string, raw json.RawMessage) error {
		var c c05Case
		if err := json.Unmarshal(raw, &c); err != nil {
			return err
		}
		return runC05(&c)
	}
}

var nameGen = rapid.StringMatching(`(a|b|d|lib|test|é|Z)(|\.go|\.c|-old|-data|0| b|\(1\)|\(|\+|_|\.|\[|ü|  x|-)`)

func genNodes(t *rapid.T, depth int) []c05Node {
	n := rapid.IntRange(0, 4).Draw(t, "n")
	if depth > 0 && n == 0 {
		n = 1 // Goit never writes an empty sub-tree
	}
	seen := map[string]bool{}
	var out []c05Node
	for i := 0; i < n; i++ {
		name := strings.TrimRight(nameGen.Draw(t, "name"), " ")
		if seen[name] {
			continue
		}
		seen[name] = true
		if depth < 3 && rapid.IntRange(0, 99).Draw(t, "dir") < 30 {
			out = append(out, c05Node{Name: name, Children: genNodes(t, depth+1)})
		} else {
			id := rapid.SliceOfN(rapid.Byte(), 20, 20).Draw(t, "id")
			if rapid.IntRange(0, 99).Draw(t, "plant") < 45 {
				v := []byte{0x00, 0x20, 0x0a, 0x09}[rapid.IntRange(0, 3).Draw(t, "v")]
				id[[]int{0, 9, 19}[rapid.IntRange(0, 2).Draw(t, "pos")]] = v
			}
			out = append(out, c05Node{Name: name, ID: hex.EncodeToString(id)})
		}
	}
	return out
}

func TestC05API(t *testing.T) {
	rapid.Check(t, func(rt *rapid.T) {
		c := &c05Case{Root: genNodes(rt, 0)}
		stats.Eval()
		js, _ := json.Marshal(c)
		nested := strings.Contains(string(js), "children")
		space := strings.Contains(string(js), " ")
		stats.LabelIf(nested, "tree:nested")
		stats.LabelIf(space, "tree:space-in-name")
		stats.LabelIf(len(c.Root) == 0, "tree:empty")
		if err := runC05(c); err != nil {
			findings.Save("C05", "api-c05", c, err)
			rt.Fatalf("C05 violated: %v", err)
		}
		if nested || space || len(c.Root) == 0 {
			stats.Nontrivial(string(js))
		}
	})
}
