package api

import (
	"encoding/json"
	"fmt"
	"os"
	"path/filepath"
	"sort"
	"strings"
	"testing"

	"github.com/JunNishimura/Goit/internal/sha"
	"github.com/JunNishimura/Goit/internal/store"
	"github.com/JunNishimura/Goit/verifharness/core/findings"
	"github.com/JunNishimura/Goit/verifharness/core/gitfmt"
	"github.com/JunNishimura/Goit/verifharness/core/stats"
	"pgregory.net/rapid"
)

// C10 (API layer): the same branch model against ONE long-lived store.Refs object,
// where an unsorted in-memory list would show (the CLI reloads it per command).

type c10Op struct {
	Op   string `json:"op"` // add | rename | delete | update | exists
	Name string `json:"name"`
	To   string `json:"to,omitempty"`
	Hash int    `json:"hash"`
	N    int    `json:"n,omitempty"` // bulk: how many branches n0000.. are created
}

type c10Case struct {
	Ops []c10Op `json:"ops"`
}

var c10Pool = []string{"b", "a.b", "a", "main", "ab", "a-b", "B", "z.9", "ma", "main2", ".wip", "b.", "_", "a.tmp", "main.tmp", "b.lock"}

func c10Hash(i int) string { return gitfmt.HashObject("commit", []byte(fmt.Sprint("c", i))) }

func runC10(c *c10Case) error {
	dir := scratchDir()
	defer os.RemoveAll(dir)
	root := filepath.Join(dir, ".goit")
	if err := os.MkdirAll(filepath.Join(root, "refs", "heads"), 0o755); err != nil {
		return err
	}
	var refs *store.Refs
	if err := guard("NewRefs", func() error { var e error; refs, e = store.NewRefs(root); return e }); err != nil {
		return err
	}
	model := map[string]string{}
	head := ""
	for i, op := range c.Ops {
		h, _ := sha.ReadHash(c10Hash(op.Hash))
		var err error
		refused := false
		switch op.Op {
		case "add":
			_, exists := model[op.Name]
			refused = exists
			err = guard("AddBranch", func() error { return refs.AddBranch(root, op.Name, h) })
			if !exists && err == nil {
				model[op.Name] = c10Hash(op.Hash)
				if head == "" {
					head = op.Name
				}
			}
		case "rename":
			_, exists := model[op.To]
			_, has := model[op.Name]
			refused = exists || !has
			err = guard("RenameBranch", func() error { return refs.RenameBranch(root, op.Name, op.To) })
			if !refused && err == nil {
				model[op.To] = model[op.Name]
				delete(model, op.Name)
				if head == op.Name {
					head = op.To
				}
			}
		case "delete":
			_, has := model[op.Name]
			refused = !has || op.Name == head
			err = guard("DeleteBranch", func() error { return refs.DeleteBranch(root, head, op.Name) })
			if !refused && err == nil {
				delete(model, op.Name)
			}
		case "bulk":
			// many branches at once: the list has no size at which it may stop being complete
			for j := 0; j < op.N && err == nil; j++ {
				name := fmt.Sprintf("n%04d", j)
				if _, exists := model[name]; exists {
					continue
				}
				err = guard("AddBranch", func() error { return refs.AddBranch(root, name, h) })
				if err == nil {
					model[name] = c10Hash(op.Hash)
					if head == "" {
						head = name
					}
				}
			}
			if err == nil {
				// ... and the next process sees every one of them
				err = guard("NewRefs", func() error { var e error; refs, e = store.NewRefs(root); return e })
			}
		case "reload":
			// what the next process sees
			err = guard("NewRefs", func() error { var e error; refs, e = store.NewRefs(root); return e })
		case "update":
			_, has := model[op.Name]
			refused = !has
			err = guard("UpdateBranchHash", func() error { return refs.UpdateBranchHash(root, op.Name, h) })
			if !refused && err == nil {
				model[op.Name] = c10Hash(op.Hash)
			}
		}
		if err != nil && strings.Contains(err.Error(), "panicked") {
			return fmt.Errorf("op %d %+v: %v", i, op, err)
		}
		if refused && err == nil {
			return fmt.Errorf("op %d %+v must be refused (branches %v, current %q) but succeeded", i, op, keys(model), head)
		}
		if !refused && err != nil {
			return fmt.Errorf("op %d %+v is allowed (branches %v, current %q) but failed: %v", i, op, keys(model), head, err)
		}
		// stored state == model
		disk, err2 := gitfmt.ReadRefsDir(root)
		if err2 != nil {
			return err2
		}
		if fmt.Sprint(disk) != fmt.Sprint(model) {
			return fmt.Errorf("after op %d %+v refs/heads holds %v, model %v", i, op, disk, model)
		}
		// the long-lived object answers membership for every pool name
		for _, n := range c10Pool {
			var got bool
			if err := guard("IsBranchExist", func() error { got = refs.IsBranchExist(n); return nil }); err != nil {
				return err
			}
			if _, want := model[n]; got != want {
				return fmt.Errorf("after op %d %+v IsBranchExist(%q)=%v, branches are %v", i, op, n, got, keys(model))
			}
		}
		if op.Op == "reload" || op.Op == "bulk" {
			for n := range model {
				var got bool
				if err := guard("IsBranchExist", func() error { got = refs.IsBranchExist(n); return nil }); err != nil {
					return err
				}
				if !got {
					return fmt.Errorf("after op %d %+v IsBranchExist(%q)=false although refs/heads holds it (%d branches)", i, op, n, len(model))
				}
			}
		}
		var names []string
		for _, b := range refs.Heads {
			names = append(names, b.Name)
		}
		if !sort.StringsAreSorted(names) || len(names) != len(model) {
			return fmt.Errorf("after op %d %+v the in-memory branch list is %q (must be the %d names in ascending order)", i, op, names, len(model))
		}
	}
	return nil
}

func keys(m map[string]string) []string {
	var ks []string
	for k := range m {
		ks = append(ks, k)
	}
	sort.Strings(ks)
	return ks
}

func init() {
	replayers["api-c10"] = func(_ string, raw json.RawMessage) error {
		var c c10Case
		if err := json.Unmarshal(raw, &c); err != nil {
			return err
		}
		return runC10(&c)
	}
}

func TestC10API(t *testing.T) {
	rapid.Check(t, func(rt *rapid.T) {
		c := &c10Case{}
		n := rapid.IntRange(3, 40).Draw(rt, "nops")
		pool := c10Pool[:rapid.IntRange(3, len(c10Pool)).Draw(rt, "pool")]
		pick := func(l string) string { return pool[rapid.IntRange(0, len(pool)-1).Draw(rt, l)] }
		kinds := map[string]bool{}
		for i := 0; i < n; i++ {
			op := c10Op{Name: pick("name"), Hash: rapid.IntRange(0, 3).Draw(rt, "hash")}
			switch w := rapid.IntRange(0, 9).Draw(rt, "op"); {
			case w < 4 || i == 0:
				op.Op = "add"
			case w < 6:
				op.Op, op.To = "rename", pick("to")
			case w < 8:
				op.Op = "delete"
			default:
				op.Op = "update"
			}
			if i > 0 && rapid.IntRange(0, 39).Draw(rt, "special") == 0 {
				op.Op = "reload"
				if !kinds["bulk"] && rapid.Bool().Draw(rt, "bulk") {
					op.Op = "bulk"
					op.N = []int{3, 255, 256, 257, 300, 513}[rapid.IntRange(0, 5).Draw(rt, "bulkN")]
				}
			}
			kinds[op.Op] = true
			c.Ops = append(c.Ops, op)
		}
		stats.Eval()
		stats.LabelIf(kinds["bulk"], "api:hundreds of branches, then a fresh reader")
		stats.LabelIf(kinds["reload"], "api:fresh reader in the middle of the history")
		if err := runC10(c); err != nil {
			findings.Save("C10", "api-c10", c, err)
			rt.Fatalf("C10 violated: %v", err)
		}
		if len(kinds) >= 3 {
			js, _ := json.Marshal(c)
			stats.Nontrivial(string(js))
		}
	})
}
