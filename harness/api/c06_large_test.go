package api

import (
	"encoding/json"
	"fmt"
	"os"
	"path/filepath"
	"sort"
	"strings"
	"testing"

	"github.com/JunNishimura/Goit/internal/sha"
	"github.com/JunNishimura/Goit/internal/store"
	"github.com/JunNishimura/Goit/verifharness/core/findings"
	"github.com/JunNishimura/Goit/verifharness/core/gitfmt"
	"github.com/JunNishimura/Goit/verifharness/core/stats"
	"pgregory.net/rapid"
)

// C06 (large staging areas): the file is lossless for any number of entries and any path
// lengths: sizes that cross internal buffer boundaries (4096, 8192, 65536 bytes), paths of
// 1..200 bytes, hundreds of entries. Entries are written by the independent encoder and
// read by NewIndex, and written by Update and read by the independent decoder.

type c06LargeCase struct {
	Paths []string `json:"paths"` // sorted, unique
	Via   string   `json:"via"`   // "crafted" (independent encoder -> NewIndex) or "update" (Update -> independent decoder)
}

func runC06Large(c *c06LargeCase) error {
	dir := scratchDir()
	defer os.RemoveAll(dir)
	root := filepath.Join(dir, ".goit")
	if err := os.MkdirAll(root, 0o755); err != nil {
		return err
	}
	want := make([]gitfmt.IndexEntry, 0, len(c.Paths))
	for _, p := range c.Paths {
		want = append(want, gitfmt.IndexEntry{ID: idFor(p), Path: p})
	}
	var idx *store.Index
	if c.Via == "crafted" {
		if err := os.WriteFile(filepath.Join(root, "index"), gitfmt.EncodeIndex(want), 0o644); err != nil {
			return err
		}
	} else {
		if err := guard("NewIndex", func() error { var e error; idx, e = store.NewIndex(root); return e }); err != nil {
			return err
		}
		// insertion in an order that is not the sorted one
		for i := range c.Paths {
			p := c.Paths[(i*7+3)%len(c.Paths)]
			h, _ := sha.ReadHash(idFor(p))
			if err := guard("Update", func() error { _, e := idx.Update(root, h, []byte(p)); return e }); err != nil {
				return fmt.Errorf("Update(%q): %v", p, err)
			}
		}
		// (i*7+3)%n is a permutation only if gcd(7,n)=1; add whatever is still missing
		for _, p := range c.Paths {
			h, _ := sha.ReadHash(idFor(p))
			if err := guard("Update", func() error { _, e := idx.Update(root, h, []byte(p)); return e }); err != nil {
				return err
			}
		}
	}
	// the file decodes independently to exactly the entries
	ix, err := gitfmt.ReadIndex(root)
	if err != nil {
		return fmt.Errorf("staging-area file with %d entries does not decode: %v", len(want), err)
	}
	if len(ix.Entries) != len(want) {
		return fmt.Errorf("file holds %d entries, %d were written", len(ix.Entries), len(want))
	}
	for i := range want {
		if ix.Entries[i] != want[i] {
			return fmt.Errorf("file entry %d is %v, written %v", i, ix.Entries[i], want[i])
		}
	}
	// Goit's reader sees exactly the entries, and finds every one of them
	var re *store.Index
	if err := guard("NewIndex", func() error { var e error; re, e = store.NewIndex(root); return e }); err != nil {
		size := 12
		for _, w := range want {
			size += 22 + len(w.Path)
		}
		return fmt.Errorf("NewIndex fails on a valid staging-area file of %d entries / %d bytes: %v", len(want), size, err)
	}
	if len(re.Entries) != len(want) {
		return fmt.Errorf("NewIndex reads %d entries from a file that holds %d", len(re.Entries), len(want))
	}
	for i, w := range want {
		e := re.Entries[i]
		if string(e.Path) != w.Path || e.Hash.String() != w.ID {
			return fmt.Errorf("NewIndex reads entry %d as (%q,%s), the file holds (%q,%s)", i, e.Path, e.Hash, w.Path, w.ID)
		}
		if _, _, found := re.GetEntry([]byte(w.Path)); !found {
			return fmt.Errorf("tracked path %q (entry %d of %d) is not found", w.Path, i, len(want))
		}
	}
	return nil
}

func init() {
	replayers["api-c06-large"] = func(_ string, raw json.RawMessage) error {
		var c c06LargeCase
		if err := json.Unmarshal(raw, &c); err != nil {
			return err
		}
		return runC06Large(&c)
	}
}

func TestC06Large(t *testing.T) {
	rapid.Check(t, func(rt *rapid.T) {
		n := rapid.IntRange(1, 40).Draw(rt, "n")
		if rapid.IntRange(0, 9).Draw(rt, "big") < 4 {
			n = rapid.IntRange(40, 400).Draw(rt, "nBig")
		}
		// path lengths cluster so that the file size sweeps across 4096 / 8192 / 65536
		base := rapid.IntRange(1, 160).Draw(rt, "baseLen")
		set := map[string]bool{}
		for i := 0; i < n; i++ {
			l := base + rapid.IntRange(0, 12).Draw(rt, "extra")
			stem := fmt.Sprintf("d%d/f%03d-", i%5, i)
			p := stem + strings.Repeat(string(rune('a'+i%26)), l)
			set[p[:min(len(p), 200)]+fmt.Sprint(i)] = true
		}
		c := &c06LargeCase{Via: []string{"crafted", "update"}[rapid.IntRange(0, 1).Draw(rt, "via")]}
		if n > 120 {
			c.Via = "crafted" // Update rewrites the file per entry: keep the quadratic part small
		}
		for p := range set {
			c.Paths = append(c.Paths, p)
		}
		sort.Strings(c.Paths)
		size := 12
		for _, p := range c.Paths {
			size += 22 + len(p)
		}
		stats.Eval()
		stats.LabelIf(size > 4096, "index:>4096-bytes")
		stats.LabelIf(size > 65536, "index:>65536-bytes")
		stats.LabelIf(len(c.Paths) >= 100, "index:>=100-entries")
		if err := runC06Large(c); err != nil {
			findings.Save("C06", "api-c06-large", c, err)
			rt.Fatalf("C06 violated: %v", err)
		}
		if size > 4096 {
			stats.Nontrivial(fmt.Sprintf("large#%d#%d#%s", len(c.Paths), size, c.Via))
		}
	})
}

func min(a, b int) int {
	if a < b {
		return a
	}
	return b
}
