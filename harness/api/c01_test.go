package api

import (
	"bytes"
	"encoding/json"
	"fmt"
	"os"
	"path/filepath"
	"strings"
	"testing"
	"unicode/utf8"

	"github.com/JunNishimura/Goit/internal/object"
	"github.com/JunNishimura/Goit/internal/sha"
	"github.com/JunNishimura/Goit/verifharness/core/findings"
	"github.com/JunNishimura/Goit/verifharness/core/gitfmt"
	"github.com/JunNishimura/Goit/verifharness/core/stats"
	"pgregory.net/rapid"
)

// C01 (API layer): put / putAgain / get / getUnknown against NewObject, Write, GetObject.

type c01Op struct {
	Op   string `json:"op"` // put | again | get | unknown
	Kind string `json:"kind,omitempty"`
	Data []byte `json:"data,omitempty"`
	Ref  int    `json:"ref,omitempty"` // index into earlier puts
}

type c01Case struct {
	Ops []c01Op `json:"ops"`
}

func kindOf(s string) object.Type {
	switch s {
	case "tree":
		return object.TreeObject
	case "commit":
		return object.CommitObject
	}
	return object.BlobObject
}

func hostile(b []byte) bool {
	if len(b) == 0 {
		return false
	}
	if bytes.IndexByte(b, 0) >= 0 || !utf8.Valid(b) || len(b) > 4096 {
		return true
	}
	for _, p := range []string{"blob", "tree", "commit", " ", "0", "1", "2", "3", "4", "5", "6", "7", "8", "9", "\n"} {
		if bytes.HasPrefix(b, []byte(p)) {
			return true
		}
	}
	return false
}

type stored struct {
	kind string
	data []byte
	id   string
}

func runC01(c *c01Case) error {
	dir := scratchDir()
	defer os.RemoveAll(dir)
	root := filepath.Join(dir, ".goit")
	if err := os.MkdirAll(filepath.Join(root, "objects"), 0o755); err != nil {
		return err
	}
	var model []stored
	checkAll := func(when string) error {
		for _, m := range model {
			// independent read of the file
			o, err := gitfmt.ReadObject(gitfmt.DirStore(root), m.id)
			if err != nil {
				return fmt.Errorf("%s: object %s no longer decodes independently: %v", when, m.id, err)
			}
			if o.Kind != m.kind || !bytes.Equal(o.Data, m.data) {
				return fmt.Errorf("%s: object %s changed: kind %s, %d bytes", when, m.id, o.Kind, len(o.Data))
			}
		}
		return nil
	}
	get := func(m stored) error {
		h, err := sha.ReadHash(m.id)
		if err != nil {
			return fmt.Errorf("ReadHash(%s): %v", m.id, err)
		}
		var got *object.Object
		if err := guard("GetObject", func() error { var e error; got, e = object.GetObject(root, h); return e }); err != nil {
			return fmt.Errorf("GetObject(%s) of stored %s, %d bytes %q: %v", m.id, m.kind, len(m.data), clip(m.data), err)
		}
		if got.Type.String() != m.kind || got.Size != len(m.data) || !bytes.Equal(got.Data, m.data) || got.Hash.String() != m.id {
			return fmt.Errorf("GetObject(%s): stored %s/%d bytes %q, got %s/size %d/%d bytes %q/hash %s", m.id, m.kind, len(m.data), clip(m.data), got.Type, got.Size, len(got.Data), clip(got.Data), got.Hash)
		}
		return nil
	}
	put := func(kind string, data []byte) error {
		var o *object.Object
		if err := guard("NewObject", func() error { var e error; o, e = object.NewObject(kindOf(kind), data); return e }); err != nil {
			return fmt.Errorf("NewObject(%s, %d bytes): %v", kind, len(data), err)
		}
		want := gitfmt.HashObject(kind, data)
		if o.Hash.String() != want {
			return fmt.Errorf("id of %s with %d bytes %q: want SHA-1(header+data) %s, got %s", kind, len(data), clip(data), want, o.Hash)
		}
		if err := guard("Write", func() error { return o.Write(root) }); err != nil {
			return fmt.Errorf("Write(%s): %v", want, err)
		}
		known := false
		for _, m := range model {
			if m.id == want {
				known = true
			}
		}
		m := stored{kind, append([]byte{}, data...), want}
		if !known {
			model = append(model, m)
		}
		if hostile(data) {
			stats.Nontrivial(kind + ":" + want)
		}
		return get(m)
	}
	for i, op := range c.Ops {
		switch op.Op {
		case "put":
			if err := put(op.Kind, op.Data); err != nil {
				return fmt.Errorf("op %d: %w", i, err)
			}
		case "again":
			if len(model) == 0 {
				continue
			}
			m := model[op.Ref%len(model)]
			if err := put(m.kind, m.data); err != nil {
				return fmt.Errorf("op %d (store again): %w", i, err)
			}
		case "get":
			if len(model) == 0 {
				continue
			}
			if err := get(model[op.Ref%len(model)]); err != nil {
				return fmt.Errorf("op %d: %w", i, err)
			}
		case "unknown":
			id := gitfmt.HashObject("blob", append([]byte("unknown-"), op.Data...))
			present := false
			for _, m := range model {
				present = present || m.id == id
			}
			if present {
				continue
			}
			h, _ := sha.ReadHash(id)
			err := guard("GetObject", func() error { _, e := object.GetObject(root, h); return e })
			if err == nil {
				return fmt.Errorf("op %d: GetObject of an id that was never stored returned data", i)
			}
			if strings.Contains(err.Error(), "panicked") {
				return fmt.Errorf("op %d: %v", i, err)
			}
		}
		// one file per distinct content
		ids, err := gitfmt.ListObjects(root)
		if err != nil {
			return err
		}
		if len(ids) != len(model) {
			return fmt.Errorf("op %d: %d object files for %d distinct contents", i, len(ids), len(model))
		}
		if err := checkAll(fmt.Sprintf("after op %d (%s)", i, op.Op)); err != nil {
			return err
		}
	}
	return nil
}

func clip(b []byte) []byte {
	if len(b) > 32 {
		return b[:32]
	}
	return b
}

func init() {
	replayers["api-c01"] = func(_ string, raw json.RawMessage) error {
		var c c01Case
		if err := json.Unmarshal(raw, &c); err != nil {
			return err
		}
		return runC01(&c)
	}
}

var boundarySizes = []int{255, 256, 257, 4095, 4096, 4097, 8192, 32767, 32768, 32769, 65535, 65536, 65537, 131072, 1 << 20}

func genContent(t *rapid.T, big bool) []byte {
	if rapid.IntRange(0, 99).Draw(t, "boundarySize") < 6 {
		n := boundarySizes[rapid.IntRange(0, len(boundarySizes)-1).Draw(t, "size")]
		if rapid.Bool().Draw(t, "compressible") {
			return []byte(strings.Repeat("z", n))
		}
		return prand(uint32(rapid.IntRange(1, 1<<30).Draw(t, "seed")), n)
	}
	w := rapid.IntRange(0, 99).Draw(t, "class")
	switch {
	case w < 25:
		return []byte(rapid.StringMatching(`[a-z \n]{0,20}`).Draw(t, "text"))
	case w < 32:
		return []byte{}
	case w < 55:
		return rapid.SliceOfN(rapid.Byte(), 1, 64).Draw(t, "bytes")
	case w < 72:
		heads := []string{"blob 3\x00abc", "12 ", " 7", "tree 0\x00", "commit 10\x00", "\x00", "\n\n", "100644 a\x00", "0", "blob", "blob 0", "9999999999999999999999 ", "tree", "commit 5\x00hello"}
		return []byte(heads[rapid.IntRange(0, len(heads)-1).Draw(t, "h")] + rapid.StringMatching(`[a-z\x00]{0,6}`).Draw(t, "tail"))
	case w < 82:
		units := []string{"a", "ab\n", "\x00", "\xff\xfe"}
		return []byte(strings.Repeat(units[rapid.IntRange(0, len(units)-1).Draw(t, "u")], rapid.IntRange(100, 20000).Draw(t, "runs")))
	case w < 96 || !big:
		return prand(uint32(rapid.IntRange(1, 1<<30).Draw(t, "seed")), rapid.IntRange(200, 9000).Draw(t, "n"))
	default:
		return prand(uint32(rapid.IntRange(1, 1<<30).Draw(t, "seed")), rapid.IntRange(1<<20, 5<<20).Draw(t, "mib"))
	}
}

func prand(seed uint32, n int) []byte {
	out := make([]byte, n)
	x := seed | 1
	for i := range out {
		x ^= x << 13
		x ^= x >> 17
		x ^= x << 5
		out[i] = byte(x >> 11)
	}
	return out
}

func TestC01API(t *testing.T) {
	kinds := []string{"blob", "blob", "tree", "commit"}
	rapid.Check(t, func(rt *rapid.T) {
		c := &c01Case{}
		n := rapid.IntRange(1, 8).Draw(rt, "nops")
		bigBudget := 1
		for i := 0; i < n; i++ {
			switch w := rapid.IntRange(0, 9).Draw(rt, "op"); {
			case w < 5 || i == 0:
				d := genContent(rt, bigBudget > 0)
				if len(d) >= 1<<20 {
					bigBudget--
				}
				c.Ops = append(c.Ops, c01Op{Op: "put", Kind: kinds[rapid.IntRange(0, 3).Draw(rt, "kind")], Data: d})
			case w < 7:
				c.Ops = append(c.Ops, c01Op{Op: "again", Ref: rapid.IntRange(0, 7).Draw(rt, "ref")})
			case w < 9:
				c.Ops = append(c.Ops, c01Op{Op: "get", Ref: rapid.IntRange(0, 7).Draw(rt, "ref")})
			default:
				c.Ops = append(c.Ops, c01Op{Op: "unknown", Data: []byte(rapid.StringMatching(`[a-z]{0,4}`).Draw(rt, "u"))})
			}
		}
		stats.Eval()
		for _, op := range c.Ops {
			if op.Op == "put" {
				stats.Label("kind:" + op.Kind)
				stats.LabelIf(len(op.Data) == 0, "content:empty")
				stats.LabelIf(len(op.Data) > 4096, "content:>4KiB")
				stats.LabelIf(len(op.Data) >= 1<<20, "content:>=1MiB")
				stats.LabelIf(bytes.IndexByte(op.Data, 0) >= 0, "content:has-NUL")
				stats.LabelIf(!utf8.Valid(op.Data), "content:invalid-utf8")
			} else {
				stats.Label("op:" + op.Op)
			}
		}
		if err := runC01(c); err != nil {
			findings.Save("C01", "api-c01", c, err)
			rt.Fatalf("C01 violated: %v", err)
		}
		if stats.WantSample() {
			var s []string
			for _, op := range c.Ops {
				s = append(s, fmt.Sprintf("%s %s %d bytes %q", op.Op, op.Kind, len(op.Data), clip(op.Data)))
			}
			stats.Sample(map[string]interface{}{"layer": "api", "ops": s})
		}
	})
}
