// Package api holds the property checks that call /repo's internal packages
// directly (possible because this module's path is nested under the repo's).
// If an internal signature changes and this package stops compiling, the driver
// reports the layer as unavailable and the CLI layer alone decides.
package api

import (
	"encoding/json"
	"fmt"
	"os"
	"testing"

	"github.com/JunNishimura/Goit/verifharness/core/findings"
	"github.com/JunNishimura/Goit/verifharness/core/stats"
)

func TestMain(m *testing.M) {
	if d := os.Getenv("VERIF_SCRATCH"); d != "" {
		os.MkdirAll(d, 0o755)
	}
	// the code under test prints listings (Reflog.Show, DeleteBranch): keep them out of the logs
	if devnull, err := os.OpenFile(os.DevNull, os.O_WRONLY, 0); err == nil && os.Getenv("VERIF_API_STDOUT") == "" {
		os.Stdout = devnull
	}
	rc := m.Run()
	stats.Flush()
	if theFixture != nil {
		theFixture.close()
	}
	os.Exit(rc)
}

var replayers = map[string]func(property string, raw json.RawMessage) error{}

func TestReplay(t *testing.T) {
	p := os.Getenv("VERIF_REPLAY_IN")
	if p == "" {
		t.Skip("VERIF_REPLAY_IN not set")
	}
	r, err := findings.Load(p)
	if err != nil {
		fmt.Fprintln(os.Stderr, "REPLAY-INFRA: cannot load replay:", err)
		t.Fatal(err)
	}
	f, ok := replayers[r.Kind]
	if !ok {
		fmt.Fprintln(os.Stderr, "REPLAY-INFRA: unknown replay kind", r.Kind)
		t.Fatal("unknown kind")
	}
	if err := f(r.Property, r.Case); err != nil {
		t.Fatalf("replayed case violates %s: %v", r.Property, err)
	}
}

func scratchDir() string {
	base := os.Getenv("VERIF_SCRATCH")
	if base == "" {
		base = os.TempDir()
	}
	d, err := os.MkdirTemp(base, "api")
	if err != nil {
		panic(err)
	}
	return d
}

// guard converts a panic in the code under test into an error.
func guard(what string, f func() error) (err error) {
	defer func() {
		if r := recover(); r != nil {
			err = fmt.Errorf("%s panicked: %v", what, r)
		}
	}()
	return f()
}
