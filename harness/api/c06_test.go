package api

import (
	"encoding/json"
	"fmt"
	"os"
	"path/filepath"
	"sort"
	"strconv"
	"strings"
	"testing"

	"github.com/JunNishimura/Goit/internal/sha"
	"github.com/JunNishimura/Goit/internal/store"
	"github.com/JunNishimura/Goit/verifharness/core/findings"
	"github.com/JunNishimura/Goit/verifharness/core/gitfmt"
	"github.com/JunNishimura/Goit/verifharness/core/stats"
)

// C06 — the staging-area file is canonical and lossless; every tracked path is
// addressable. Exhaustive small-scope enumeration: all path sets up to a size
// bound over a universe chosen around the byte order of '/' (0x2f): '-' 0x2d,
// '.' 0x2e sort before it, '0' after it; names that are prefixes / substrings
// of each other; regexp metacharacters.

var c06Universe = []string{
	"a", "a-", "a.", "a0", "a b", "a(", "a+", "a[", "ab", "ad", "d", "d-old",
	"a/x", "a/a", "a-/x", "a./x", "ad/x", "d/x", "d/a(", "a b/x", "a(/x", "d/d-old",
}

func init() {
	// one path longer than 255 bytes, one that is not valid UTF-8, one non-ASCII (their lengths in bytes, runes and mod 256 differ)
	c06Universe = append(c06Universe, "d/"+strings.Repeat("L", 130)+"/"+strings.Repeat("M", 130), "a/r\xe9sum\xe9", "d/caf\u00e9")
}

var _ = 0

// queries: every universe path, every directory prefix, plus names that are in no set.
func c06Queries() []string {
	set := map[string]bool{}
	for _, p := range c06Universe {
		set[p] = true
		if i := strings.Index(p, "/"); i > 0 {
			set[p[:i]] = true
		}
	}
	for _, q := range []string{"", "x", "a/", "d/", "a/x/y", "b", "d-", "a*", ".", "a.*", "d/d", "(", "a/(", "[a]", "a|d"} {
		set[q] = true
	}
	out := make([]string, 0, len(set))
	for q := range set {
		out = append(out, q)
	}
	sort.Strings(out)
	return out
}

type c06Case struct {
	Insert []string `json:"-"` // insertion order
	Delete string   `json:"-"`
}

// paths may be invalid UTF-8: they are saved base64-encoded
type c06JSON struct {
	Insert [][]byte `json:"insert_b64"`
	Delete []byte   `json:"delete_b64,omitempty"`
}

func (c c06Case) MarshalJSON() ([]byte, error) {
	j := c06JSON{Delete: []byte(c.Delete)}
	for _, p := range c.Insert {
		j.Insert = append(j.Insert, []byte(p))
	}
	return json.Marshal(j)
}

func (c *c06Case) UnmarshalJSON(b []byte) error {
	var j c06JSON
	if err := json.Unmarshal(b, &j); err != nil {
		return err
	}
	c.Delete = string(j.Delete)
	c.Insert = nil
	for _, p := range j.Insert {
		c.Insert = append(c.Insert, string(p))
	}
	return nil
}

func idFor(p string) string { return gitfmt.HashObject("blob", []byte(p)) }

func runC06(c *c06Case) error {
	dir := scratchDir()
	defer os.RemoveAll(dir)
	root := filepath.Join(dir, ".goit")
	if err := os.MkdirAll(root, 0o755); err != nil {
		return err
	}
	var idx *store.Index
	if err := guard("NewIndex", func() error { var e error; idx, e = store.NewIndex(root); return e }); err != nil {
		return err
	}
	model := map[string]string{}
	for _, p := range c.Insert {
		h, _ := sha.ReadHash(idFor(p))
		if err := guard("Update", func() error { _, e := idx.Update(root, h, []byte(p)); return e }); err != nil {
			return fmt.Errorf("Update(%q): %v", p, err)
		}
		model[p] = idFor(p)
	}
	// an update of an existing path replaces its entry
	if len(c.Insert) > 0 {
		p := c.Insert[0]
		nid := gitfmt.HashObject("blob", []byte(p+" v2"))
		h, _ := sha.ReadHash(nid)
		if err := guard("Update", func() error { _, e := idx.Update(root, h, []byte(p)); return e }); err != nil {
			return fmt.Errorf("Update(%q) again: %v", p, err)
		}
		model[p] = nid
	}
	if err := c06Check(root, idx, model, fmt.Sprintf("after inserting %q", c.Insert)); err != nil {
		return err
	}
	if c.Delete != "" {
		if err := guard("DeleteEntry", func() error { return idx.DeleteEntry(root, []byte(c.Delete)) }); err != nil {
			return fmt.Errorf("DeleteEntry(%q) of a tracked path: %v", c.Delete, err)
		}
		delete(model, c.Delete)
		if err := c06Check(root, idx, model, fmt.Sprintf("after inserting %q and deleting %q", c.Insert, c.Delete)); err != nil {
			return err
		}
	}
	// a freshly loaded index sees the same entries
	var re *store.Index
	if err := guard("NewIndex", func() error { var e error; re, e = store.NewIndex(root); return e }); err != nil {
		return fmt.Errorf("reload: %v", err)
	}
	return c06Check(root, re, model, "after reload")
}

func c06Check(root string, idx *store.Index, model map[string]string, when string) error {
	want := make([]string, 0, len(model))
	for p := range model {
		want = append(want, p)
	}
	sort.Strings(want)
	// (a) the file decodes to exactly the model: count, ids, complete paths, strictly ascending, no trailing bytes
	ix, err := gitfmt.ReadIndex(root)
	if err != nil {
		return fmt.Errorf("%s: staging-area file does not decode: %v", when, err)
	}
	if int(ix.Count) != len(ix.Entries) || len(ix.Entries) != len(want) {
		return fmt.Errorf("%s: file has count %d and %d entries, model has %d", when, ix.Count, len(ix.Entries), len(want))
	}
	if err := ix.Canonical(); err != nil {
		return fmt.Errorf("%s: %v", when, err)
	}
	for i, e := range ix.Entries {
		if e.Path != want[i] || e.ID != model[want[i]] {
			return fmt.Errorf("%s: file entry %d is (%q,%s), model has (%q,%s)", when, i, e.Path, e.ID[:8], want[i], model[want[i]][:8])
		}
	}
	if len(idx.Entries) != len(want) || int(idx.EntryNum) != len(want) {
		return fmt.Errorf("%s: in-memory index has %d entries (EntryNum %d), model %d", when, len(idx.Entries), idx.EntryNum, len(want))
	}
	// (b) lookups
	for _, q := range c06Queries() {
		_, inSet := model[q]
		var pos int
		var ent *store.Entry
		var found bool
		if err := guard("GetEntry", func() error { pos, ent, found = idx.GetEntry([]byte(q)); return nil }); err != nil {
			return fmt.Errorf("%s: GetEntry(%q): %v", when, q, err)
		}
		if found != inSet {
			return fmt.Errorf("%s: GetEntry(%q) found=%v, tracked=%v (tracked paths %q)", when, q, found, inSet, want)
		}
		if found && (string(ent.Path) != q || ent.Hash.String() != model[q] || pos < 0 || pos >= len(want) || want[pos] != q) {
			return fmt.Errorf("%s: GetEntry(%q) returned entry %q/%s at position %d", when, q, ent.Path, ent.Hash, pos)
		}
		var beneath []string
		for _, p := range want {
			if q != "" && strings.HasPrefix(p, q+"/") {
				beneath = append(beneath, p)
			}
		}
		if q == "" {
			continue // the empty name is never passed by the commands
		}
		var isDir bool
		if err := guard("IsRegisteredAsDirectory", func() error { isDir = idx.IsRegisteredAsDirectory(q); return nil }); err != nil {
			return fmt.Errorf("%s: IsRegisteredAsDirectory(%q): %v", when, q, err)
		}
		if isDir != (len(beneath) > 0) {
			return fmt.Errorf("%s: IsRegisteredAsDirectory(%q)=%v but the tracked paths beneath %q/ are %q (all: %q)", when, q, isDir, q, beneath, want)
		}
		var got []string
		if err := guard("GetEntriesByDirectory", func() error {
			for _, e := range idx.GetEntriesByDirectory(q) {
				got = append(got, string(e.Path))
			}
			return nil
		}); err != nil {
			return fmt.Errorf("%s: GetEntriesByDirectory(%q): %v", when, q, err)
		}
		if strings.Join(got, "\x00") != strings.Join(beneath, "\x00") {
			return fmt.Errorf("%s: GetEntriesByDirectory(%q) selects %q, the tracked paths beneath are %q (all: %q)", when, q, got, beneath, want)
		}
	}
	return nil
}

func init() {
	replayers["api-c06"] = func(_ string, raw json.RawMessage) error {
		var c c06Case
		if err := json.Unmarshal(raw, &c); err != nil {
			return err
		}
		return runC06(&c)
	}
}

// confusable: two names where one is a prefix/substring of the other, or a sibling sorting between d and d/.
func confusable(set []string) bool {
	for _, a := range set {
		for _, b := range set {
			if a != b && strings.Contains(b, strings.SplitN(a, "/", 2)[0]) {
				return true
			}
		}
	}
	return false
}

// orders returns the insertion orders tried for a set: all permutations up to size 3,
// otherwise ascending, descending and two rotations of an interleaving.
func orders(set []string) [][]string {
	if len(set) <= 3 {
		var out [][]string
		var perm func(a []string, k int)
		perm = func(a []string, k int) {
			if k == len(a) {
				out = append(out, append([]string{}, a...))
				return
			}
			for i := k; i < len(a); i++ {
				a[k], a[i] = a[i], a[k]
				perm(a, k+1)
				a[k], a[i] = a[i], a[k]
			}
		}
		perm(append([]string{}, set...), 0)
		return out
	}
	asc := append([]string{}, set...)
	desc := make([]string, len(set))
	for i, s := range set {
		desc[len(set)-1-i] = s
	}
	mid := append(append([]string{}, set[len(set)/2:]...), set[:len(set)/2]...)
	var inter []string
	for i := 0; i < len(set); i += 2 {
		inter = append(inter, set[i])
	}
	for i := 1; i < len(set); i += 2 {
		inter = append(inter, set[i])
	}
	return [][]string{asc, desc, mid, inter}
}

func TestC06Exhaustive(t *testing.T) {
	maxSize := 4
	if os.Getenv("VERIF_TIER") == "thorough" {
		maxSize = 5
	}
	if v := os.Getenv("VERIF_C06_SIZE"); v != "" {
		maxSize, _ = strconv.Atoi(v)
	}
	shard, _ := strconv.Atoi(os.Getenv("VERIF_SHARD"))
	nsh, _ := strconv.Atoi(os.Getenv("VERIF_NSHARDS"))
	if nsh < 1 {
		nsh = 1
	}
	n := len(c06Universe)
	sets, cases := 0, 0
	var cur []string
	var rec func(start int) error
	rec = func(start int) error {
		if len(cur) > 0 || start == 0 {
			sets++
			if sets%nsh == shard {
				set := append([]string{}, cur...)
				sort.Strings(set)
				for oi, ord := range orders(set) {
					c := &c06Case{Insert: ord}
					if len(ord) > 0 {
						c.Delete = ord[(oi+sets)%len(ord)]
					}
					cases++
					if err := runC06(c); err != nil {
						findings.Save("C06", "api-c06", c, err)
						return fmt.Errorf("C06 violated: %v", err)
					}
					if confusable(set) {
						stats.Nontrivial(strings.Join(ord, "\x00"))
					}
					if stats.WantSample() && len(ord) == maxSize && confusable(set) && cases%97 == 0 {
						stats.Sample(map[string]interface{}{"insert_order": ord, "delete": c.Delete, "queries": len(c06Queries())})
					}
				}
			}
		}
		if len(cur) == maxSize {
			return nil
		}
		for i := start; i < n; i++ {
			cur = append(cur, c06Universe[i])
			if err := rec(i + 1); err != nil {
				return err
			}
			cur = cur[:len(cur)-1]
		}
		return nil
	}
	err := rec(0)
	stats.EvalN(cases)
	stats.Extra("lookups", cases*len(c06Queries())*3)
	if shard == 0 {
		stats.Exhaustive(fmt.Sprintf("path sets of size <= %d over a universe of %d paths (each in all / 4 insertion orders, x %d query names)", maxSize, n, len(c06Queries())), sets)
	}
	if err != nil {
		t.Fatal(err)
	}
}
