package api

import (
	"bytes"
	"encoding/json"
	"fmt"
	"os"
	"path/filepath"
	"runtime"
	"strings"
	"testing"
	"time"

	gbinary "github.com/JunNishimura/Goit/internal/binary"
	glog "github.com/JunNishimura/Goit/internal/log"
	"github.com/JunNishimura/Goit/internal/object"
	"github.com/JunNishimura/Goit/internal/sha"
	"github.com/JunNishimura/Goit/internal/store"
	"github.com/JunNishimura/Goit/verifharness/core/findings"
	"github.com/JunNishimura/Goit/verifharness/core/gitfmt"
	"github.com/JunNishimura/Goit/verifharness/core/stats"
	"pgregory.net/rapid"
)

// C19 — decoders are total: damaged files give errors, not crashes, hangs,
// unbounded allocation or wrong data.

type c19Case struct {
	Loader string `json:"loader"`
	Data   []byte `json:"data"`
	// object loader: the id the bytes are stored under and asked for
	ID string `json:"id,omitempty"`
	// reflog-tail loader: a line of this many bytes follows Data, then the genuine records of the fixture
	LongLine int `json:"long_line,omitempty"`
}

var c19Loaders = []string{"object", "tree", "commit", "index", "head", "branch", "config", "globalconfig", "reflog", "hash", "nullstr"}

// fixture: a small valid repository built with the independent encoders.
type fixture struct {
	root     string
	home     string
	blobID   string
	subTree  string
	rootTree string
	commit1  string
	commit2  string
	files    map[string][]byte // relative path in .goit -> valid content
}

func writeObj(root, kind string, data []byte) string {
	id, raw := gitfmt.EncodeObject(kind, data)
	p := filepath.Join(root, "objects", id[:2], id[2:])
	os.MkdirAll(filepath.Dir(p), 0o755)
	if err := os.WriteFile(p, raw, 0o644); err != nil {
		panic(err)
	}
	return id
}

func newFixture() *fixture {
	dir := scratchDir()
	f := &fixture{root: filepath.Join(dir, ".goit"), home: filepath.Join(dir, "home"), files: map[string][]byte{}}
	os.MkdirAll(filepath.Join(f.root, "refs", "heads"), 0o755)
	os.MkdirAll(filepath.Join(f.root, "logs"), 0o755)
	os.MkdirAll(f.home, 0o755)
	f.blobID = writeObj(f.root, "blob", []byte("hello\n"))
	f.subTree = writeObj(f.root, "tree", gitfmt.EncodeTree([]gitfmt.TreeEntry{{Mode: "100644", Name: "x y.txt", ID: f.blobID}, {Mode: "100644", Name: "z", ID: f.blobID}}))
	f.rootTree = writeObj(f.root, "tree", gitfmt.EncodeTree([]gitfmt.TreeEntry{{Mode: "100644", Name: "a.txt", ID: f.blobID}, {Mode: "040000", Name: "dir", ID: f.subTree}, {Mode: "100644", Name: "e", ID: f.blobID}}))
	sign := "Test User <test@example.com> 1700000000 -0530"
	f.commit1 = writeObj(f.root, "commit", []byte(fmt.Sprintf("tree %s\nauthor %s\ncommitter %s\n\nfirst\n", f.rootTree, sign, sign)))
	f.commit2 = writeObj(f.root, "commit", []byte(fmt.Sprintf("tree %s\nparent %s\nauthor %s\ncommitter %s\n\nsecond: line\n\nbody\n", f.rootTree, f.commit1, sign, sign)))
	put := func(rel string, data []byte) {
		f.files[rel] = data
		p := filepath.Join(f.root, rel)
		os.MkdirAll(filepath.Dir(p), 0o755)
		os.WriteFile(p, data, 0o644)
	}
	put("index", gitfmt.EncodeIndex([]gitfmt.IndexEntry{{ID: f.blobID, Path: "a.txt"}, {ID: f.blobID, Path: "dir/x y.txt"}, {ID: f.blobID, Path: "dir/z"}, {ID: f.blobID, Path: "e"}}))
	put("HEAD", []byte("ref: refs/heads/main"))
	put("refs/heads/main", []byte(f.commit2))
	put("config", []byte("[user]\n\tname = Test User\n\temail = test@example.com\n[core]\n\teditor = a=b\n"))
	h1, _ := sha.ReadHash(f.commit1)
	h2, _ := sha.ReadHash(f.commit2)
	when := time.Unix(1700000000, 0).In(time.FixedZone("x", -19800))
	lg := glog.NewRecord(glog.CommitRecord, nil, h1, "Test User", "test@example.com", when, "first").String() +
		glog.NewRecord(glog.CommitRecord, h1, h2, "Test User", "test@example.com", when, "second: line").String() +
		glog.NewRecord(glog.CheckoutRecord, h2, h2, "Test User", "test@example.com", when, "moving from main to main").String() +
		glog.NewRecord(glog.BranchRecord, h2, nil, "Test User", "test@example.com", when, "renamed refs/heads/a to refs/heads/main").String()
	put("logs/HEAD", []byte(lg))
	os.WriteFile(filepath.Join(f.home, ".goitconfig"), f.files["config"], 0o644)
	return f
}

func (f *fixture) close() { os.RemoveAll(filepath.Dir(f.root)) }

func (f *fixture) restore(rel string) {
	os.WriteFile(filepath.Join(f.root, rel), f.files[rel], 0o644)
}

var theFixture *fixture

func fix() *fixture {
	if theFixture == nil {
		theFixture = newFixture()
		os.Setenv("HOME", theFixture.home)
	}
	return theFixture
}

// bounded runs f with the totality oracles: no panic, returns within 5 s, bounded allocation.
func bounded(what string, inputLen int, f func() error) (verdict error, loaderErr error) {
	var before, after runtime.MemStats
	runtime.ReadMemStats(&before)
	done := make(chan error, 1)
	var lerr error
	go func() {
		done <- guard(what, func() error { lerr = f(); return nil })
	}()
	select {
	case err := <-done:
		if err != nil {
			return err, nil
		}
	case <-time.After(5 * time.Second):
		return fmt.Errorf("%s did not return within 5 s", what), nil
	}
	runtime.ReadMemStats(&after)
	if delta := after.TotalAlloc - before.TotalAlloc; delta > 64<<20+2048*uint64(inputLen) {
		return fmt.Errorf("%s allocated %d bytes for an input of %d bytes", what, delta, inputLen), nil
	}
	return nil, lerr
}

// runC19 feeds the bytes to one loader. It returns a violation, and whether the
// loader got past its first validation step (for the non-triviality count).
func runC19(c *c19Case) (error, bool) {
	f := fix()
	data := c.Data
	switch c.Loader {
	case "object":
		id := c.ID
		if id == "" {
			id = f.blobID
		}
		p := filepath.Join(f.root, "objects", id[:2], id[2:])
		orig, _ := os.ReadFile(p)
		os.MkdirAll(filepath.Dir(p), 0o755)
		os.WriteFile(p, data, 0o644)
		defer func() {
			if orig != nil {
				os.WriteFile(p, orig, 0o644)
			} else {
				os.Remove(p)
			}
		}()
		h, _ := sha.ReadHash(id)
		var got *object.Object
		v, lerr := bounded("GetObject", len(data), func() error { var e error; got, e = object.GetObject(f.root, h); return e })
		if v != nil {
			return v, false
		}
		if lerr == nil {
			// a damaged / misplaced object is never returned as if it were the requested content
			if real := gitfmt.HashObject(got.Type.String(), got.Data); real != id {
				return fmt.Errorf("GetObject(%s) returned %s content of %d bytes whose id is %s", id, got.Type, len(got.Data), real), true
			}
			return nil, true
		}
		return nil, false
	case "object-overlong":
		// an object file whose stream is far longer than its header announces: it has to be refused, and reading it
		// must not cost memory in proportion to the surplus (c.LongLine bytes of zeros, a few hundred KiB compressed)
		payload := append([]byte("blob 5\x00hello"), make([]byte, c.LongLine)...)
		raw := deflate(payload)
		id := gitfmt.HashObject("blob", []byte("hello"))
		p := filepath.Join(f.root, "objects", id[:2], id[2:])
		os.MkdirAll(filepath.Dir(p), 0o755)
		os.WriteFile(p, raw, 0o644)
		defer os.Remove(p)
		h, _ := sha.ReadHash(id)
		var before, after runtime.MemStats
		runtime.GC()
		runtime.ReadMemStats(&before)
		var got *object.Object
		var lerr error
		if err := guard("GetObject", func() error { got, lerr = object.GetObject(f.root, h); return nil }); err != nil {
			return err, false
		}
		runtime.ReadMemStats(&after)
		if lerr == nil {
			return fmt.Errorf("GetObject returned %d bytes for an object file that announces 5 and holds %d", len(got.Data), 5+c.LongLine), true
		}
		if delta := after.TotalAlloc - before.TotalAlloc; delta > 24<<20 && c.LongLine >= 64<<20 {
			return fmt.Errorf("GetObject allocated %d MiB to refuse an object file of %d KiB that announces 5 bytes (its stream inflates to %d MiB)", delta>>20, len(raw)>>10, c.LongLine>>20), true
		}
		return nil, true
	case "tree":
		var tree *object.Tree
		v, lerr := bounded("NewTree", len(data), func() error {
			o, e := object.NewObject(object.TreeObject, data)
			if e != nil {
				return e
			}
			tree, e = object.NewTree(f.root, o)
			if e == nil {
				_ = tree.String()
				object.GetNode(tree.Children, "dir/z")
			}
			return e
		})
		return v, lerr == nil && tree != nil && len(tree.Children) > 0
	case "commit":
		var cm *object.Commit
		v, lerr := bounded("NewCommit", len(data), func() error {
			o, e := object.NewObject(object.CommitObject, data)
			if e != nil {
				return e
			}
			cm, e = object.NewCommit(o)
			if e == nil {
				_ = cm.String()
			}
			return e
		})
		return v, lerr == nil && cm != nil && len(cm.Tree) > 0
	case "index":
		os.WriteFile(filepath.Join(f.root, "index"), data, 0o644)
		defer f.restore("index")
		var idx *store.Index
		v, lerr := bounded("NewIndex", len(data), func() error {
			var e error
			idx, e = store.NewIndex(f.root)
			if e == nil {
				idx.GetEntry([]byte("dir/z"))
				idx.IsRegisteredAsDirectory("dir")
				idx.GetEntriesByDirectory("dir")
			}
			return e
		})
		return v, lerr == nil && idx != nil && len(idx.Entries) > 0
	case "head":
		os.WriteFile(filepath.Join(f.root, "HEAD"), data, 0o644)
		defer f.restore("HEAD")
		var hd *store.Head
		v, lerr := bounded("NewHead", len(data), func() error { var e error; hd, e = store.NewHead(f.root); return e })
		return v, lerr == nil && hd != nil && hd.Reference != ""
	case "branch":
		os.WriteFile(filepath.Join(f.root, "refs/heads/main"), data, 0o644)
		defer f.restore("refs/heads/main")
		ok := false
		v, _ := bounded("NewRefs+NewHead", len(data), func() error {
			_, e1 := store.NewRefs(f.root)
			_, e2 := store.NewHead(f.root)
			ok = e1 == nil && e2 == nil
			return nil
		})
		return v, ok
	case "config", "globalconfig":
		p := filepath.Join(f.root, "config")
		if c.Loader == "globalconfig" {
			p = filepath.Join(f.home, ".goitconfig")
		}
		os.WriteFile(p, data, 0o644)
		defer os.WriteFile(p, f.files["config"], 0o644)
		var cfg *store.Config
		v, lerr := bounded("NewConfig", len(data), func() error {
			var e error
			cfg, e = store.NewConfig(f.root)
			if e == nil {
				cfg.IsUserSet()
				cfg.GetUserName()
				cfg.GetEmail()
			}
			return e
		})
		return v, lerr == nil && bytes.Contains(data, []byte("="))
	case "reflog":
		os.WriteFile(filepath.Join(f.root, "logs/HEAD"), data, 0o644)
		defer f.restore("logs/HEAD")
		n := 0
		v, lerr := bounded("NewReflog", len(data), func() error {
			hd, e := store.NewHead(f.root)
			if e != nil {
				return e
			}
			refs, e := store.NewRefs(f.root)
			if e != nil {
				return e
			}
			rl, e := store.NewReflog(f.root, hd, refs)
			if e != nil {
				return e
			}
			for i := 0; i < 6; i++ {
				if _, e := rl.GetRecord(i); e == nil {
					n++
				}
			}
			rl.Show()
			return nil
		})
		return v, lerr == nil && n > 0
	case "reflog-tail":
		// arbitrary lines FOLLOWED by the genuine log: positions count from the end, so whatever the reader makes of the
		// garbage, positions 0..2 are the three genuine records, or the log is refused; anything else is wrong data
		garbage := append([]byte{}, data...)
		if c.LongLine > 0 {
			garbage = append(garbage, bytes.Repeat([]byte("x"), c.LongLine)...)
		}
		if len(garbage) > 0 && garbage[len(garbage)-1] != '\n' {
			garbage = append(garbage, '\n')
		}
		whole := append(garbage, f.files["logs/HEAD"]...)
		os.WriteFile(filepath.Join(f.root, "logs/HEAD"), whole, 0o644)
		defer f.restore("logs/HEAD")
		var got []string
		v, lerr := bounded("NewReflog", len(whole), func() error {
			hd, e := store.NewHead(f.root)
			if e != nil {
				return e
			}
			refs, e := store.NewRefs(f.root)
			if e != nil {
				return e
			}
			rl, e := store.NewReflog(f.root, hd, refs)
			if e != nil {
				return e
			}
			for i := 0; i < 3; i++ {
				r, e := rl.GetRecord(i)
				if e != nil {
					got = append(got, "error: "+e.Error())
				} else {
					got = append(got, r.Hash.String())
				}
			}
			return nil
		})
		if v == nil && lerr == nil {
			want := []string{f.commit2, f.commit2, f.commit1}
			if fmt.Sprint(got) != fmt.Sprint(want) {
				return fmt.Errorf("the log ends with three genuine records %v; after %d bytes of other lines in front of them positions 0..2 read %v", want, len(garbage), got), true
			}
		}
		return v, lerr == nil
	case "hash":
		var h sha.SHA1
		v, lerr := bounded("ReadHash", len(data), func() error { var e error; h, e = sha.ReadHash(string(data)); return e })
		if v == nil && lerr == nil && len(h) < 20 {
			return fmt.Errorf("ReadHash(%q) accepted and returned %d bytes", data, len(h)), true
		}
		return v, lerr == nil
	case "nullstr":
		var s string
		v, lerr := bounded("ReadNullTerminatedString", len(data), func() error {
			var e error
			s, e = gbinary.ReadNullTerminatedString(bytes.NewReader(data))
			return e
		})
		if v == nil && lerr == nil {
			want := data
			if i := bytes.IndexByte(data, 0); i >= 0 {
				want = data[:i]
			}
			if s != string(want) {
				return fmt.Errorf("ReadNullTerminatedString(%q) = %q, want %q", data, s, want), true
			}
		}
		return v, true
	}
	return fmt.Errorf("REPLAY-INFRA: unknown loader %q", c.Loader), false
}

func init() {
	replayers["api-c19"] = func(_ string, raw json.RawMessage) error {
		var c c19Case
		if err := json.Unmarshal(raw, &c); err != nil {
			return err
		}
		err, _ := runC19(&c)
		return err
	}
}

func c19Report(c *c19Case) error {
	stats.Eval()
	err, deep := runC19(c)
	if err != nil {
		findings.Save("C19", "api-c19", c, err)
		return fmt.Errorf("C19 violated by loader %s on %d bytes %q: %v", c.Loader, len(c.Data), clip(c.Data), err)
	}
	stats.Label("loader:" + c.Loader)
	if deep {
		stats.Label("got-past-first-validation:" + c.Loader)
		stats.Nontrivial(c.Loader + ":" + c.ID + ":" + string(c.Data))
	}
	return nil
}

// validInputs returns, per loader, valid files to start from (payload level).
func validInputs() map[string][][]byte {
	f := fix()
	inflate := func(id string) []byte {
		o, err := gitfmt.ReadObject(gitfmt.DirStore(f.root), id)
		if err != nil {
			panic(err)
		}
		return o.Data
	}
	raw := func(id string) []byte {
		b, _ := os.ReadFile(filepath.Join(f.root, "objects", id[:2], id[2:]))
		return b
	}
	return map[string][][]byte{
		"object":       {raw(f.blobID), raw(f.rootTree), raw(f.commit2)},
		"tree":         {inflate(f.rootTree), inflate(f.subTree)},
		"commit":       {inflate(f.commit2), inflate(f.commit1)},
		"index":        {f.files["index"]},
		"head":         {f.files["HEAD"]},
		"branch":       {f.files["refs/heads/main"]},
		"config":       {f.files["config"]},
		"globalconfig": {f.files["config"]},
		"reflog":       {f.files["logs/HEAD"]},
		"hash":         {[]byte(f.commit1)},
		"nullstr":      {[]byte("100644 a b\x00rest")},
	}
}

var hostileConstants = []string{"", "\x00", "\n", " ", "=", "[", "[]", "[a]", "[a]\nb", "a=b", "\t= \n", "ref: ", "ref: refs/heads/", "ref: refs/heads/\n", "DIRC", "DIRC\x00\x00\x00\x01\xff\xff\xff\xff",
	"DIRC\x00\x00\x00\x01\x00\x00\x00\x01", "100644", "100644 \x00", "040000 d\x00", "tree \nauthor", "author a <b> 1 +0000", "author  <a@b.cc> 1 +", "0 0 \t", "a b c", "0000000000000000000000000000000000000000 0000000000000000000000000000000000000000 x\tcommit: y",
	"x\x9c", "x\x9c\x03\x00\x00\x00\x00\x01", strings.Repeat("0", 40), strings.Repeat("f", 41), "blob 5\x00abc", "blob -1\x00", "blob 99999999999999999999\x00", "commit 0\x00"}

// TestC19Mutations: every truncation, every single-byte deletion, and at every position the
// substitutions {^0x01, ^0x80, 0x00, 0x20, 0x0a, 0xff} of every valid file; objects both at the
// compressed level and at the content level (re-compressed, stored under the original name);
// swapping valid object files.
func TestC19Mutations(t *testing.T) {
	f := fix()
	vi := validInputs()
	stride := 1
	if os.Getenv("VERIF_TIER") != "thorough" {
		stride = 3
	}
	try := func(c *c19Case) {
		if err := c19Report(c); err != nil {
			t.Fatal(err)
		}
	}
	mutate := func(valid []byte, emit func([]byte)) {
		emit(valid)
		for i := 0; i < len(valid); i++ {
			emit(append([]byte{}, valid[:i]...)) // truncation
		}
		for i := 0; i < len(valid); i++ {
			if stride > 1 && i >= 64 && len(valid) > 256 && i%stride != 0 {
				continue // quick tier: headers and small files completely, long bodies every 3rd position
			}
			emit(append(append([]byte{}, valid[:i]...), valid[i+1:]...)) // deletion
			for _, sub := range []func(byte) byte{
				func(b byte) byte { return b ^ 0x01 }, func(b byte) byte { return b ^ 0x80 },
				func(b byte) byte { return 0x00 }, func(b byte) byte { return 0x20 }, func(b byte) byte { return 0x0a }, func(b byte) byte { return 0xff },
			} {
				m := append([]byte{}, valid...)
				m[i] = sub(m[i])
				if m[i] != valid[i] {
					emit(m)
				}
			}
		}
	}
	for _, loader := range c19Loaders {
		for _, valid := range vi[loader] {
			mutate(valid, func(m []byte) { try(&c19Case{Loader: loader, Data: m}) })
		}
	}
	// objects at the content level: damaged content, re-compressed, under the original name
	for _, id := range []string{f.blobID, f.rootTree, f.commit2} {
		o, _ := gitfmt.ReadObject(gitfmt.DirStore(f.root), id)
		full := append([]byte(fmt.Sprintf("%s %d\x00", o.Kind, len(o.Data))), o.Data...)
		mutate(full, func(m []byte) {
			try(&c19Case{Loader: "object", ID: id, Data: deflate(m)})
		})
	}
	// streams that are much longer than announced
	for _, n := range []int{1 << 20, 64 << 20, 128 << 20} {
		try(&c19Case{Loader: "object-overlong", LongLine: n})
		stats.Label("object:overlong-stream")
	}
	// valid object files stored under another object's name
	ids := []string{f.blobID, f.subTree, f.rootTree, f.commit1, f.commit2}
	for _, a := range ids {
		for _, b := range ids {
			if a != b {
				rawB, _ := os.ReadFile(filepath.Join(f.root, "objects", b[:2], b[2:]))
				try(&c19Case{Loader: "object", ID: a, Data: rawB})
				stats.Label("object:swapped")
			}
		}
	}
}

func deflate(b []byte) []byte {
	_, raw := encodeRaw(b)
	return raw
}

// TestC19Random: arbitrary and structured-hostile bytes for every loader (rapid).
func TestC19Random(t *testing.T) {
	vi := validInputs()
	rapid.Check(t, func(rt *rapid.T) {
		loader := c19Loaders[rapid.IntRange(0, len(c19Loaders)-1).Draw(rt, "loader")]
		var data []byte
		switch rapid.IntRange(0, 5).Draw(rt, "shape") {
		case 0:
			data = rapid.SliceOfN(rapid.Byte(), 0, 200).Draw(rt, "bytes")
		case 1:
			data = []byte(hostileConstants[rapid.IntRange(0, len(hostileConstants)-1).Draw(rt, "const")] + string(rapid.SliceOfN(rapid.Byte(), 0, 20).Draw(rt, "tail")))
		case 2, 3:
			// splice: a valid file with a random slice replaced / inserted / repeated
			vs := vi[loader]
			v := append([]byte{}, vs[rapid.IntRange(0, len(vs)-1).Draw(rt, "valid")]...)
			if len(v) > 0 {
				i := rapid.IntRange(0, len(v)-1).Draw(rt, "i")
				j := rapid.IntRange(i, len(v)).Draw(rt, "j")
				ins := rapid.SliceOfN(rapid.Byte(), 0, 12).Draw(rt, "ins")
				v = append(append(append([]byte{}, v[:i]...), ins...), v[j:]...)
			}
			data = v
		case 4:
			// line-oriented garbage for the text formats
			n := rapid.IntRange(0, 6).Draw(rt, "lines")
			var ls []string
			for k := 0; k < n; k++ {
				ls = append(ls, rapid.StringMatching(`[\[\]=a-c \t:<>@.0-9+-]{0,30}`).Draw(rt, "line"))
			}
			data = []byte(strings.Join(ls, "\n"))
		default:
			data = deflate(rapid.SliceOfN(rapid.Byte(), 0, 60).Draw(rt, "content"))
		}
		cs := &c19Case{Loader: loader, Data: data}
		if loader == "reflog" && rapid.IntRange(0, 2).Draw(rt, "asTail") == 0 {
			cs.Loader = "reflog-tail"
			if rapid.IntRange(0, 1).Draw(rt, "withLongLine") == 0 {
				cs.LongLine = []int{4095, 4096, 65535, 65536, 65537, 70000, 1 << 20, 1<<20 + 1, 3 << 20}[rapid.IntRange(0, 8).Draw(rt, "longLine")]
			}
		}
		if err := c19Report(cs); err != nil {
			rt.Fatalf("%v", err)
		}
		if stats.WantSample() && len(data) > 4 {
			stats.Sample(map[string]interface{}{"loader": loader, "bytes": fmt.Sprintf("%q", clip(data))})
		}
	})
}
