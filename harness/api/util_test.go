package api

import (
	"bytes"
	"compress/zlib"
)

// encodeRaw zlib-compresses arbitrary bytes (header included by the caller).
func encodeRaw(full []byte) (string, []byte) {
	var b bytes.Buffer
	w := zlib.NewWriter(&b)
	w.Write(full)
	w.Close()
	return "", b.Bytes()
}
