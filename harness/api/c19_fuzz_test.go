package api

import (
	"testing"
)

// Native coverage-guided fuzz targets (thorough tier): one per loader, seeded with the
// valid files of the fixture and the hostile constants. The semantic oracle is inside
// the target (runC19): no panic, bounded time and allocation, a returned object hashes
// to the requested id. A failing input is saved as a replay file by c19Report.
func fuzzLoader(f *testing.F, loader string) {
	for _, v := range validInputs()[loader] {
		f.Add(v)
	}
	for _, c := range hostileConstants {
		f.Add([]byte(c))
	}
	f.Fuzz(func(t *testing.T, data []byte) {
		if len(data) > 1<<16 {
			return
		}
		if err := c19Report(&c19Case{Loader: loader, Data: data}); err != nil {
			t.Fatal(err)
		}
	})
}

func FuzzC19Object(f *testing.F)  { fuzzLoader(f, "object") }
func FuzzC19Tree(f *testing.F)    { fuzzLoader(f, "tree") }
func FuzzC19Commit(f *testing.F)  { fuzzLoader(f, "commit") }
func FuzzC19Index(f *testing.F)   { fuzzLoader(f, "index") }
func FuzzC19Head(f *testing.F)    { fuzzLoader(f, "head") }
func FuzzC19Branch(f *testing.F)  { fuzzLoader(f, "branch") }
func FuzzC19Config(f *testing.F)  { fuzzLoader(f, "config") }
func FuzzC19Reflog(f *testing.F)  { fuzzLoader(f, "reflog") }
func FuzzC19Hash(f *testing.F)    { fuzzLoader(f, "hash") }
func FuzzC19NullStr(f *testing.F) { fuzzLoader(f, "nullstr") }

// FuzzC19ObjectContent fuzzes the inflated content (header + data): it is re-compressed and
// stored under a fixed id, so the fuzzer reaches the header parser instead of dying in zlib.
func FuzzC19ObjectContent(f *testing.F) {
	for _, s := range []string{"blob 5\x00hello", "tree 0\x00", "commit 3\x00abc", "blob 0\x00", "blob 6\x00hello\n", "blob  1\x00a", "blob 1 \x00a", "blob +1\x00a", "blob 01\x00a", "tag 1\x00a"} {
		f.Add([]byte(s))
	}
	f.Fuzz(func(t *testing.T, content []byte) {
		if len(content) > 1<<16 {
			return
		}
		if err := c19Report(&c19Case{Loader: "object", Data: deflate(content)}); err != nil {
			t.Fatal(err)
		}
	})
}
